package main

import (
	"encoding/json"
	"fmt"
	"os"
	"path/filepath"
	"sort"
	"strings"
	"time"

	"verif/engine/interp"
)

type sampleOb struct {
	Harness string `json:"harness"`
	Label   string `json:"label"`
	Kind    string `json:"kind"`
	Query   string `json:"query"`
	Verdict string `json:"verdict"`
}

func check(prop, tier, only string, jobs int) int {
	t0 := time.Now()
	seed := seedFromEnv()
	os.Setenv("VERIF_TIER", tier)
	thorough := tier == "thorough"
	evidencePath := filepath.Join(verifDir, "evidence", prop+".json")
	if d := os.Getenv("VERIF_EVIDENCE_DIR"); d != "" {
		evidencePath = filepath.Join(d, prop+".json") // development runs must not clobber the committed evidence
	}
	os.MkdirAll(filepath.Dir(evidencePath), 0o755)
	inconclusive := func(msg string) int {
		fmt.Printf("INCONCLUSIVE property=%s %s\n", prop, msg)
		writeEvidence(evidencePath, prop, tier, seed, nil, nil, nil, time.Since(t0), 0, []string{"INCONCLUSIVE: " + msg}, nil)
		return 3
	}
	p, err := interp.Load(repoDir, filepath.Join(verifDir, "harness"))
	if err != nil {
		return inconclusive("cannot load /repo with harness overlays: " + err.Error())
	}
	loadT := time.Since(t0)
	var names []string
	for n := range p.Harness {
		m := propRe.FindStringSubmatch(n)
		if m == nil || m[1] != prop {
			continue
		}
		if strings.Contains(n, "_thorough") && !thorough {
			continue
		}
		if only != "" && !strings.Contains(n, only) {
			continue
		}
		names = append(names, n)
	}
	sort.Strings(names)
	if len(names) == 0 {
		return inconclusive("no harness found")
	}
	known := loadKnown()
	per := 4 * time.Minute
	samples := 6
	if thorough {
		per = 25 * time.Minute
		samples = 40
	}
	runs := runHarnesses(p, names, thorough, jobs, per, nil, os.Getenv("VERIF_DEBUG") != "", samples)

	// extra deciders outside the path explorer (schedule queries for C18)
	var extraNotes []string
	var extraProblems []string
	extraViol := 0
	if prop == "C18" {
		n, v, probs := raceDecide(p, runs, thorough, known)
		extraNotes = append(extraNotes, n...)
		extraProblems = append(extraProblems, probs...)
		extraViol += v
	}

	work, _ := os.MkdirTemp(filepath.Join(verifDir, ".work"), prop+"-")
	if work == "" {
		os.MkdirAll(filepath.Join(verifDir, ".work"), 0o755)
		work, _ = os.MkdirTemp(filepath.Join(verifDir, ".work"), prop+"-")
	}
	defer os.RemoveAll(work)
	outs, nerr := nativeBatch(p, runs, work)

	var problems []string // reasons for an inconclusive verdict
	problems = append(problems, extraProblems...)
	if nerr != nil {
		problems = append(problems, nerr.Error())
	}
	violations := extraViol
	var lines []string
	knownSeen := map[string]bool{}
	validated := 0
	for _, o := range outs {
		if o.c.kind == "sample" {
			if o.confirmed() {
				validated++
			} else if o.ran {
				problems = append(problems, fmt.Sprintf("translator validation mismatch in %s sample %d: engine says %q obs %q, real build says %q obs %q (vector %v)",
					o.c.harness, o.c.idx, o.c.want, strings.Join(o.c.obs, ";"), o.got, o.gotObs, o.c.vec))
			}
			continue
		}
		// counterexample
		var kf *KnownFinding
		for i := range known {
			k := &known[i]
			if k.Property == prop && harnessMatch(k.Harness, o.c.harness) && k.Label == o.c.label && k.Status == "open" {
				kf = k
			}
		}
		if !o.confirmed() && o.c.label == "use-after-release" && nerr == nil {
			// a buffer used after it went back to the process-wide pool is only observable when another goroutine takes
			// it in between: the replay is the harness's native concurrent driver under the race detector
			driver := "VerifN_" + strings.TrimPrefix(o.c.harness, "VerifH_")
			if hasFunc(p, o.c.harness, driver) {
				reports, err := nativeRaceRunFn(p, o.c.harness, driver)
				if err != nil {
					problems = append(problems, "concurrent replay: "+err.Error())
					continue
				}
				if len(reports) > 0 {
					o.got, o.crash = "panic", "concurrent replay: "+strings.Join(strings.Fields(firstLines(reports[0], 12)), " ")
					o.forceConfirmed = true
				}
			}
		}
		if !o.confirmed() {
			if nerr == nil {
				problems = append(problems, fmt.Sprintf("counterexample for %s/%s did not reproduce on the real build (expected %q, got %q %s): encoding mismatch", o.c.harness, o.c.label, o.c.want, o.got, o.crash))
			}
			continue
		}
		if kf != nil {
			knownSeen[kf.ID] = true
			lines = append(lines, fmt.Sprintf("KNOWN-FINDING: property=%s %s %s/%s: %s", prop, kf.ID, o.c.harness, o.c.label, kf.What))
			continue
		}
		dir := writeReplayDir(p, prop, o)
		violations++
		lines = append(lines, fmt.Sprintf("VIOLATION property=%s replay=%s", prop, dir))
		lines = append(lines, fmt.Sprintf("  harness=%s label=%s native=%q %s vector=%v", o.c.harness, o.c.label, o.got, o.crash, o.c.vec))
	}
	for _, k := range known {
		if k.Property == prop && k.Status == "open" && !knownSeen[k.ID] && !strings.HasPrefix(k.Harness, "race:") {
			ran := false
			for _, n := range names {
				if harnessMatch(k.Harness, n) {
					ran = true
				}
			}
			if ran {
				lines = append(lines, fmt.Sprintf("NOTE: known finding %s (%s/%s) was not reproduced by this run", k.ID, k.Harness, k.Label))
			}
		}
	}
	for _, r := range runs {
		if r.err != nil {
			problems = append(problems, fmt.Sprintf("%s: %v", r.name, r.err))
			continue
		}
		res := r.res
		for _, u := range res.Unsupported {
			problems = append(problems, fmt.Sprintf("%s: %s", r.name, u))
		}
		for _, u := range res.Incomplete {
			problems = append(problems, fmt.Sprintf("%s: incomplete: %s", r.name, u))
		}
		for _, ls := range res.Labels {
			if ls.Unknown > 0 {
				problems = append(problems, fmt.Sprintf("%s: %d solver unknown/timeout on obligation %s", r.name, ls.Unknown, ls.Label))
			}
		}
		for w := range res.WantCovered {
			if !res.Covered[w] {
				problems = append(problems, fmt.Sprintf("%s: vacuity guard: point %q was not reached on any feasible path", r.name, w))
			}
		}
		if res.CompletedPaths == 0 && len(res.Labels) == 0 {
			problems = append(problems, fmt.Sprintf("%s: vacuous: no path completed and no obligation was checked", r.name))
		}
	}
	for _, r := range runs {
		if r.res != nil {
			fmt.Printf("harness %-44s paths %-5d obligations %-5d queries %-6d solver %.1fs wall %.1fs\n", r.name, r.res.Paths, countObl(r.res), r.res.Queries, r.res.SolverTime.Seconds(), r.res.Wall.Seconds())
		}
	}
	for _, n := range extraNotes {
		fmt.Println(n)
	}
	for _, l := range lines {
		fmt.Println(l)
	}
	writeEvidence(evidencePath, prop, tier, seed, p, runs, outs, time.Since(t0), violations, problems, map[string]interface{}{"load_s": loadT.Seconds(), "validated": validated, "notes": extraNotes})
	if violations > 0 {
		return 1
	}
	if len(problems) > 0 {
		for _, pr := range problems {
			fmt.Printf("INCONCLUSIVE property=%s %s\n", prop, pr)
		}
		return 3
	}
	fmt.Printf("OK property=%s tier=%s harnesses=%d wall=%.1fs\n", prop, tier, len(names), time.Since(t0).Seconds())
	return 0
}

// harnessMatch: exact name, or a prefix ending in '*'.
func harnessMatch(pat, name string) bool {
	if strings.HasSuffix(pat, "*") {
		return strings.HasPrefix(name, strings.TrimSuffix(pat, "*"))
	}
	return pat == name
}

func countObl(r *interp.Result) int {
	n := 0
	for _, ls := range r.Labels {
		n += ls.Checked + ls.Folded
	}
	return n
}

func writeEvidence(path, prop, tier string, seed int64, p *interp.Program, runs []*harnessRun, outs []*nativeOut, wall time.Duration, violations int, problems []string, extra map[string]interface{}) {
	states, transitions, forks, queries, qsat, qunsat, qunk := 0, 0, 0, 0, 0, 0, 0
	evaluations, nontrivial := 0, 0
	solverT := 0.0
	funcs := map[string]bool{}
	stubs := map[string]bool{}
	bounds := map[string]interface{}{}
	var samples []interface{}
	var harnessInfo []interface{}
	unknowns, unwinding := 0, 0
	for _, r := range runs {
		if r == nil || r.res == nil {
			continue
		}
		res := r.res
		states += res.Paths
		transitions += res.Decisions + res.CompletedPaths
		forks += res.Forks
		queries += res.Queries
		qsat += res.QSat
		qunsat += res.QUnsat
		qunk += res.QUnknown
		solverT += res.SolverTime.Seconds()
		for f := range res.Functions {
			if !strings.Contains(f, "/internal/vrt.") {
				funcs[f] = true
			}
		}
		for s := range res.Stubs {
			stubs[s] = true
		}
		hb := map[string]interface{}{}
		for k, v := range res.Bounds {
			hb[k] = v
		}
		bounds[r.name] = hb
		var labs []string
		for l := range res.Labels {
			labs = append(labs, l)
		}
		sort.Strings(labs)
		nlab := 0
		for _, l := range labs {
			ls := res.Labels[l]
			evaluations += ls.Checked
			if ls.Checked > 0 {
				nontrivial++
			}
			unknowns += ls.Unknown
			verdict := "discharged"
			if ls.Cex != nil {
				verdict = "counterexample"
			} else if ls.Unknown > 0 {
				verdict = "unknown"
			} else if ls.Checked == 0 {
				verdict = "folded to constant"
			}
			if nlab < 4 && ls.SampleSMT != "" {
				samples = append(samples, sampleOb{Harness: r.name, Label: l, Kind: ls.Kind, Query: ls.SampleSMT, Verdict: verdict})
				nlab++
			}
		}
		for _, inc := range res.Incomplete {
			if strings.Contains(inc, "unwinding") {
				unwinding++
			}
		}
		harnessInfo = append(harnessInfo, map[string]interface{}{"harness": r.name, "paths": res.Paths, "completed_paths": res.CompletedPaths, "assume_ended_paths": res.AssumeEnded,
			"branch_decisions": res.Decisions, "solver_decided_forks": res.Forks, "pin_decided": res.PinDecided, "ssa_steps": res.Steps, "labels": len(res.Labels), "queries": res.Queries, "solver_s": res.SolverTime.Seconds(), "wall_s": res.Wall.Seconds()})
	}
	validated := 0
	cexConfirmed := 0
	for _, o := range outs {
		if o.c.kind == "sample" && o.confirmed() {
			validated++
		}
		if o.c.kind == "cex" && o.confirmed() {
			cexConfirmed++
			if len(samples) < 12 {
				samples = append(samples, map[string]interface{}{"counterexample_for": o.c.harness + "/" + o.c.label, "vector": o.c.vec, "native_outcome": o.got})
			}
		}
	}
	if len(samples) == 0 {
		samples = append(samples, "no obligation reached the solver")
	}
	var fl []string
	for f := range funcs {
		fl = append(fl, f)
	}
	sort.Strings(fl)
	var sl []string
	for s := range stubs {
		sl = append(sl, s)
	}
	sort.Strings(sl)
	if states == 0 {
		states = 1
	}
	if transitions == 0 {
		transitions = 1
	}
	cov := map[string]interface{}{
		"states":                        states,
		"transitions":                   transitions,
		"traces_validated_against_impl": validated,
		"samples":                       samples,
		"evaluations":                   evaluations,
		"distinct_nontrivial":           nontrivial,
		"rule":                          "states = symbolic paths explored (one per feasible combination of branch decisions, decided by the solver); transitions = branch decisions along them + path completions; evaluations = obligations whose formula still contained a symbolic variable when it reached the solver; distinct_nontrivial = distinct (harness,label) obligations among those; traces_validated = path models re-executed on the real build with identical outcome and observations",
		"solver_decided_forks":          forks,
		"queries":                       map[string]int{"total": queries, "sat": qsat, "unsat": qunsat, "unknown": qunk},
		"solver_time_s":                 solverT,
		"functions_encoded":             fl,
		"functions_encoded_count":       len(fl),
		"stubs_used":                    sl,
		"bounds":                        bounds,
		"harnesses":                     harnessInfo,
		"unknowns":                      unknowns,
		"unwinding_failures":            unwinding,
		"counterexamples_replayed":      cexConfirmed,
		"inconclusive_reasons":          problems,
		"exhaustive":                    false,
	}
	for k, v := range extra {
		cov[k] = v
	}
	ev := map[string]interface{}{
		"property_id": prop,
		"tier":        tier,
		"seed":        seed,
		"level":       "model_checking",
		"coverage":    cov,
		"assumptions": []string{
			"go/ssa form of /repo's working tree is what the compiler builds (x/tools v0.50.0)",
			"z3 4.8.12 verdicts (unsat = holds within the stated bounds); any solver error or unknown makes the run inconclusive",
			"environment stubs listed under coverage.stubs_used",
			"bounds stated in the harness sources under /verif/harness (lengths, ranks, loop unwinding) — nothing is claimed outside them",
		},
		"wall_s":     wall.Seconds(),
		"violations": violations,
	}
	b, _ := json.MarshalIndent(ev, "", " ")
	os.WriteFile(path, b, 0o644)
}

func hasFunc(p *interp.Program, harness, fn string) bool {
	h := p.Harness[harness]
	return h != nil && h.Pkg != nil && h.Pkg.Func(fn) != nil
}

func firstLines(s string, n int) string {
	ls := strings.Split(s, "\n")
	if len(ls) > n {
		ls = ls[:n]
	}
	return strings.Join(ls, "\n")
}
