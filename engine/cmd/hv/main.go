// hv: driver of the solver-based checks.
//
//	hv check <PROP> [--tier quick|thorough] [--only <substr>] [-j N]
//	hv run <harness> ...            (development: run harnesses, print results)
//	hv replay <dir>
package main

import (
	"encoding/json"
	"flag"
	"fmt"
	"os"
	"path/filepath"
	"regexp"
	"runtime"
	"runtime/pprof"
	"sort"
	"strconv"
	"strings"
	"sync"
	"time"

	"verif/engine/interp"
)

// verifDir: VERIF_DIR is a development override (a snapshot of /verif used by background runs); registered commands never set it
var verifDir = func() string {
	if d := os.Getenv("VERIF_DIR"); d != "" {
		return d
	}
	return "/verif"
}()

// repoDir is /repo; VERIF_REPO overrides it for development runs against a scratch worktree
// (registered commands never set it).
var repoDir = "/repo"

type KnownFinding struct {
	ID       string `json:"id"`
	Property string `json:"property"`
	Harness  string `json:"harness"`
	Label    string `json:"label"`
	Status   string `json:"status"` // open | fixed
	What     string `json:"what"`
	Commit   string `json:"commit,omitempty"`
}

type KnownFile struct {
	Findings []KnownFinding `json:"findings"`
}

func loadKnown() []KnownFinding {
	b, err := os.ReadFile(filepath.Join(verifDir, "known_findings.json"))
	if err != nil {
		return nil
	}
	var kf KnownFile
	if err := json.Unmarshal(b, &kf); err != nil {
		fmt.Fprintln(os.Stderr, "known_findings.json:", err)
		os.Exit(3)
	}
	return kf.Findings
}

func main() {
	// offline toolchain able to load /repo (go.mod says go 1.25)
	os.Setenv("PATH", "/opt/veriftools/go1.26.8/bin:"+os.Getenv("PATH"))
	os.Setenv("GOTOOLCHAIN", "local")
	os.Setenv("GOFLAGS", "-mod=mod")
	os.Setenv("GOPROXY", "off")
	os.Setenv("GOSUMDB", "off")
	if r := os.Getenv("VERIF_REPO"); r != "" {
		repoDir = r
	}
	if len(os.Args) < 2 {
		fmt.Fprintln(os.Stderr, "usage: hv check|run|replay ...")
		os.Exit(2)
	}
	switch os.Args[1] {
	case "check":
		os.Exit(cmdCheck(os.Args[2:]))
	case "run":
		os.Exit(cmdRun(os.Args[2:]))
	case "replay":
		os.Exit(cmdReplay(os.Args[2:]))
	case "race":
		os.Exit(cmdRace(os.Args[2:]))
	}
	fmt.Fprintln(os.Stderr, "unknown command", os.Args[1])
	os.Exit(2)
}

func tierFromEnv(def string) string {
	if t := os.Getenv("VERIF_TIER"); t == "quick" || t == "thorough" {
		return t
	}
	return def
}

func seedFromEnv() int64 {
	if s := os.Getenv("VERIF_SEED"); s != "" {
		if v, err := strconv.ParseInt(s, 10, 64); err == nil {
			return v
		}
	}
	return 1
}

type harnessRun struct {
	name string
	res  *interp.Result
	err  error
}

func runHarnesses(p *interp.Program, names []string, thorough bool, jobs int, perHarness time.Duration, known map[string]bool, debug bool, samples int) []*harnessRun {
	runs := make([]*harnessRun, len(names))
	var wg sync.WaitGroup
	sem := make(chan struct{}, jobs)
	for i, n := range names {
		wg.Add(1)
		go func(i int, n string) {
			defer wg.Done()
			sem <- struct{}{}
			defer func() { <-sem }()
			hr := &harnessRun{name: n}
			runs[i] = hr
			defer func() {
				if r := recover(); r != nil {
					buf := make([]byte, 8192)
					buf = buf[:runtime.Stack(buf, false)]
					hr.err = fmt.Errorf("engine crash: %v\n%s", r, buf)
				}
			}()
			opt := interp.Options{Thorough: thorough, Deadline: time.Now().Add(perHarness), KnownLabels: known, Debug: debug, SamplePaths: samples}
			opt.Sched = strings.Contains(n, "_sched")
			opt.TraceThreads = strings.Contains(n, "_trace") || opt.Sched
			if d, _ := harnessPkg(p, n); true {
				opt.PkgDir = filepath.Join(repoDir, d)
			}
			if b := os.Getenv("VERIF_BACKEND"); b != "" {
				opt.Backend = b
			}
			it, err := interp.New(p.Prog, opt)
			if err != nil {
				hr.err = err
				return
			}
			defer it.Close()
			hr.res = it.RunHarness(p.Harness[n])
		}(i, n)
	}
	wg.Wait()
	return runs
}

func cmdRun(args []string) int {
	fs := flag.NewFlagSet("run", flag.ExitOnError)
	thorough := fs.Bool("thorough", false, "thorough tier")
	debug := fs.Bool("debug", false, "print every path")
	jobs := fs.Int("j", 8, "parallel harnesses")
	tmo := fs.Duration("t", 10*time.Minute, "per-harness time budget")
	doReplay := fs.Bool("replay", false, "replay counterexamples and samples natively")
	prof := fs.String("cpuprofile", "", "write cpu profile")
	fs.Parse(args)
	if *prof != "" {
		f, _ := os.Create(*prof)
		pprof.StartCPUProfile(f)
		defer pprof.StopCPUProfile()
	}
	t0 := time.Now()
	p, err := interp.Load(repoDir, filepath.Join(verifDir, "harness"))
	if err != nil {
		fmt.Fprintln(os.Stderr, err)
		return 3
	}
	fmt.Fprintf(os.Stderr, "loaded in %.1fs, %d harnesses\n", time.Since(t0).Seconds(), len(p.Harness))
	var names []string
	for _, pat := range fs.Args() {
		for n := range p.Harness {
			if strings.Contains(n, pat) {
				names = append(names, n)
			}
		}
	}
	sort.Strings(names)
	names = uniq(names)
	runs := runHarnesses(p, names, *thorough, *jobs, *tmo, nil, *debug, 5)
	for _, r := range runs {
		printRun(r)
	}
	if *doReplay {
		outs, err := nativeBatch(p, runs, filepath.Join(verifDir, ".work", "dev"))
		if err != nil {
			fmt.Println("replay error:", err)
		}
		for _, o := range outs {
			fmt.Printf("  native %s[%s#%d]: want %q got %q obs-match=%v\n", o.c.harness, o.c.kind, o.c.idx, o.c.want, o.got, o.obsOK)
		}
	}
	return 0
}

func uniq(s []string) []string {
	var out []string
	for i, x := range s {
		if i == 0 || x != s[i-1] {
			out = append(out, x)
		}
	}
	return out
}

func printRun(r *harnessRun) {
	if r.err != nil {
		fmt.Printf("== %s: ERROR %v\n", r.name, r.err)
		return
	}
	res := r.res
	fmt.Printf("== %s: paths %d (completed %d, assume-ended %d) decisions %d forks %d steps %d queries %d (sat %d unsat %d unknown %d) solver %.2fs wall %.2fs\n",
		r.name, res.Paths, res.CompletedPaths, res.AssumeEnded, res.Decisions, res.Forks, res.Steps, res.Queries, res.QSat, res.QUnsat, res.QUnknown, res.SolverTime.Seconds(), res.Wall.Seconds())
	var labels []string
	for l := range res.Labels {
		labels = append(labels, l)
	}
	sort.Strings(labels)
	for _, l := range labels {
		ls := res.Labels[l]
		st := "ok"
		if ls.Cex != nil {
			st = fmt.Sprintf("CEX vec=%v detail=%s where=%s", ls.Cex.Vector, ls.Cex.Detail, ls.Cex.Where)
		}
		fmt.Printf("   [%s] %-40s checked %d folded %d discharged %d unknown %d %s\n", ls.Kind, l, ls.Checked, ls.Folded, ls.Discharged, ls.Unknown, st)
	}
	if os.Getenv("VERIF_FUNCS") != "" {
		var fs []string
		for f := range res.Functions {
			fs = append(fs, f)
		}
		sort.Strings(fs)
		for _, f := range fs {
			fmt.Printf("   FUNC %s\n", f)
		}
	}
	for _, u := range res.Unsupported {
		fmt.Printf("   UNSUPPORTED %s\n", u)
	}
	for _, u := range res.Incomplete {
		fmt.Printf("   INCOMPLETE %s\n", u)
	}
	for w := range res.WantCovered {
		if !res.Covered[w] {
			fmt.Printf("   NOT-COVERED %s\n", w)
		}
	}
}

var propRe = regexp.MustCompile(`^VerifH_(C[0-9]+)_`)

func cmdCheck(args []string) int {
	if len(args) < 1 {
		fmt.Fprintln(os.Stderr, "usage: hv check <PROP> [--tier quick|thorough]")
		return 2
	}
	prop := args[0]
	fs := flag.NewFlagSet("check", flag.ExitOnError)
	tier := fs.String("tier", tierFromEnv("quick"), "quick|thorough")
	only := fs.String("only", "", "substring filter on harness names")
	jobs := fs.Int("j", 12, "parallel harnesses")
	fs.Parse(args[1:])
	return check(prop, *tier, *only, *jobs)
}
