package main

import (
	"bufio"
	"bytes"
	"encoding/json"
	"fmt"
	"os"
	"os/exec"
	"path/filepath"
	"regexp"
	"sort"
	"strconv"
	"strings"
	"time"

	"verif/engine/interp"
)

// nativeCase is one vector to be executed against the real build.
type nativeCase struct {
	harness string
	kind    string // "cex" | "sample"
	idx     int
	label   string
	cexKind string
	vec     []uint64
	want    string // expected outcome
	obs     []string
	pkgDir  string // directory of the harness package relative to /repo
	pkgName string
}

type nativeOut struct {
	c      nativeCase
	got    string
	gotObs string
	obsOK  bool
	ran    bool
	crash  string

	forceConfirmed bool // confirmed by a concurrent replay
}

func (o *nativeOut) confirmed() bool {
	if o.forceConfirmed {
		return true
	}
	if !o.ran {
		return false
	}
	w := o.c.want
	switch {
	case strings.HasPrefix(w, "assert:"):
		return o.got == w
	case strings.HasPrefix(w, "panic"):
		return strings.HasPrefix(o.got, "panic:") || o.crash != ""
	case w == "ok":
		return o.got == "ok" && o.obsOK
	}
	return o.got == w
}

func harnessPkg(p *interp.Program, name string) (dir, pkgName string) {
	fn := p.Harness[name]
	path := fn.Pkg.Pkg.Path()
	rel := strings.TrimPrefix(path, "github.com/scigolib/hdf5")
	rel = strings.TrimPrefix(rel, "/")
	return rel, fn.Pkg.Pkg.Name()
}

func casesOf(p *interp.Program, runs []*harnessRun) []nativeCase {
	var cases []nativeCase
	for _, r := range runs {
		if r.res == nil {
			continue
		}
		dir, pn := harnessPkg(p, r.name)
		var labels []string
		for l := range r.res.Labels {
			labels = append(labels, l)
		}
		sort.Strings(labels)
		for _, l := range labels {
			ls := r.res.Labels[l]
			if ls.Cex == nil {
				continue
			}
			want := "assert:" + l
			if ls.Kind != "assert" {
				want = "panic"
			}
			cases = append(cases, nativeCase{harness: r.name, kind: "cex", label: l, cexKind: ls.Kind, vec: ls.Cex.Vector, want: want, pkgDir: dir, pkgName: pn})
		}
		for i, s := range r.res.Samples {
			cases = append(cases, nativeCase{harness: r.name, kind: "sample", idx: i, vec: s.Vector, want: s.Outcome, obs: s.Obs, pkgDir: dir, pkgName: pn})
		}
	}
	return cases
}

var runLine = regexp.MustCompile(`^VERIF-RUN harness=(\S+) idx=(\d+) outcome="((?:[^"\\]|\\.)*)" obs="((?:[^"\\]|\\.)*)"`)

// nativeBatch runs all cases against the real build: one test binary per package.
func nativeBatch(p *interp.Program, runs []*harnessRun, workDir string) ([]*nativeOut, error) {
	cases := casesOf(p, runs)
	return nativeRunCases(p, cases, workDir, false)
}

func goEnv() []string {
	env := os.Environ()
	env = append(env, "PATH=/opt/veriftools/go1.26.8/bin:"+os.Getenv("PATH"), "GOTOOLCHAIN=local", "GOFLAGS=-mod=mod", "GOPROXY=off", "GOSUMDB=off")
	return env
}

func nativeRunCases(p *interp.Program, cases []nativeCase, workDir string, race bool) ([]*nativeOut, error) {
	outs := make([]*nativeOut, len(cases))
	for i := range cases {
		outs[i] = &nativeOut{c: cases[i]}
	}
	if len(cases) == 0 {
		return outs, nil
	}
	os.MkdirAll(workDir, 0o755)
	byPkg := map[string][]int{}
	for i, c := range cases {
		byPkg[c.pkgDir] = append(byPkg[c.pkgDir], i)
	}
	var pkgs []string
	for k := range byPkg {
		pkgs = append(pkgs, k)
	}
	sort.Strings(pkgs)
	for _, pkg := range pkgs {
		idxs := byPkg[pkg]
		pkgName := cases[idxs[0]].pkgName
		// generate the test file
		var sb strings.Builder
		sb.WriteString("//go:build verif\n\npackage " + pkgName + "\n\nimport (\n\t\"os\"\n\t\"strconv\"\n\t\"testing\"\n\n\t\"github.com/scigolib/hdf5/internal/vrt\"\n)\n\n")
		sb.WriteString("func TestVerifReplay(t *testing.T) {\n\tcases := []struct {\n\t\th    string\n\t\tfn   func()\n\t\treps int\n\t\tvec  []uint64\n\t}{\n")
		for _, ci := range idxs {
			c := cases[ci]
			// a counterexample of a schedule-mode harness depends on the interleaving, which the native run cannot force:
			// it is repeated (up to 12 times) until the violation shows
			reps := 1
			if c.kind == "cex" && strings.Contains(c.harness, "_sched") {
				reps = 12
			}
			sb.WriteString(fmt.Sprintf("\t\t{%q, %s, %d, []uint64{", c.harness, c.harness, reps))
			for j, v := range c.vec {
				if j > 0 {
					sb.WriteString(", ")
				}
				sb.WriteString("0x" + strconv.FormatUint(v, 16))
			}
			sb.WriteString("}},\n")
		}
		sb.WriteString("\t}\n\t// harness scripts create files by relative name: never inside the repository\n\tif wd, err := os.Getwd(); err == nil {\n\t\tos.Setenv(\"VERIF_PKG_DIR\", wd)\n\t}\n\tif err := os.Chdir(t.TempDir()); err != nil {\n\t\tt.Fatal(err)\n\t}\n\tonly := -1\n\tif s := os.Getenv(\"VERIF_CASE\"); s != \"\" {\n\t\tonly, _ = strconv.Atoi(s)\n\t}\n")
		sb.WriteString("\tfor i, c := range cases {\n\t\tif only >= 0 && i != only {\n\t\t\tcontinue\n\t\t}\n\t\tout, obs := vrt.Run(c.fn, c.vec)\n\t\tfor r := 1; r < c.reps && out == \"ok\"; r++ {\n\t\t\tout, obs = vrt.Run(c.fn, c.vec)\n\t\t}\n\t\tvrt.Report(c.h, i, out, obs)\n\t}\n}\n")
		tag := strings.ReplaceAll(pkg, "/", "_")
		if tag == "" {
			tag = "root"
		}
		testFile := filepath.Join(workDir, "zz_verif_replay_"+tag+"_test.go")
		if err := os.WriteFile(testFile, []byte(sb.String()), 0o644); err != nil {
			return outs, err
		}
		repl := map[string]string{}
		for v, real := range p.Overlay {
			repl[v] = real
		}
		repl[filepath.Join(repoDir, pkg, "zz_verif_replay_test.go")] = testFile
		ovb, _ := json.Marshal(map[string]interface{}{"Replace": repl})
		ovFile := filepath.Join(workDir, "overlay_"+tag+".json")
		os.WriteFile(ovFile, ovb, 0o644)
		bin := filepath.Join(workDir, "replay_"+tag+".test")
		args := []string{"test", "-tags", "verif", "-vet=off", "-c", "-o", bin, "-overlay", ovFile}
		if race {
			args = append(args, "-race")
		}
		args = append(args, "./"+pkg)
		cmd := exec.Command("go", args...)
		cmd.Dir = repoDir
		cmd.Env = goEnv()
		if b, err := cmd.CombinedOutput(); err != nil {
			return outs, fmt.Errorf("native build failed for %s: %v\n%s", pkg, err, b)
		}
		// risky cases (allocation, possible hangs) run isolated; the rest in one go
		var isolated, batch []int
		for k, ci := range idxs {
			c := cases[ci]
			if c.kind == "cex" && (c.cexKind == "alloc" || c.cexKind == "engine" || strings.Contains(c.label, "alloc") || strings.Contains(c.label, "terminat") || strings.Contains(c.label, "bounded-work") || strings.Contains(c.label, "stack")) {
				isolated = append(isolated, k)
			} else {
				batch = append(batch, k)
			}
		}
		runBin := func(caseIdx int, timeout time.Duration) (string, error) {
			script := fmt.Sprintf("ulimit -v 6000000; exec %s -test.run '^TestVerifReplay$' -test.timeout %ds", bin, int(timeout.Seconds()))
			cmd := exec.Command("bash", "-c", script)
			cmd.Dir = filepath.Join(repoDir, pkg)
			cmd.Env = append(goEnv(), "VERIF_TIER="+os.Getenv("VERIF_TIER"))
			if caseIdx >= 0 {
				cmd.Env = append(cmd.Env, "VERIF_CASE="+strconv.Itoa(caseIdx))
			}
			var buf bytes.Buffer
			cmd.Stdout = &buf
			cmd.Stderr = &buf
			err := cmd.Run()
			return buf.String(), err
		}
		parse := func(out string) map[int][2]string {
			res := map[int][2]string{}
			sc := bufio.NewScanner(strings.NewReader(out))
			sc.Buffer(make([]byte, 1<<20), 1<<24)
			for sc.Scan() {
				m := runLine.FindStringSubmatch(sc.Text())
				if m == nil {
					continue
				}
				k, _ := strconv.Atoi(m[2])
				o, _ := strconv.Unquote(`"` + m[3] + `"`)
				ob, _ := strconv.Unquote(`"` + m[4] + `"`)
				res[k] = [2]string{o, ob}
			}
			return res
		}
		fill := func(k int, r [2]string) {
			o := outs[idxs[k]]
			o.ran = true
			o.got = r[0]
			o.gotObs = r[1]
			o.obsOK = r[1] == strings.Join(o.c.obs, ";")
		}
		if len(batch) > 0 {
			out, err := runBin(-1, 300*time.Second)
			got := parse(out)
			missing := false
			for _, k := range batch {
				if r, ok := got[k]; ok {
					fill(k, r)
				} else {
					missing = true
				}
			}
			if missing {
				// the batch died (fatal error / timeout) before reaching some cases: run those isolated
				_ = err
				for _, k := range batch {
					if _, ok := got[k]; !ok {
						isolated = append(isolated, k)
					}
				}
			}
		}
		for _, k := range isolated {
			out, err := runBin(k, 60*time.Second)
			got := parse(out)
			if r, ok := got[k]; ok {
				fill(k, r)
				continue
			}
			o := outs[idxs[k]]
			o.ran = true
			if err != nil {
				tail := out
				if len(tail) > 600 {
					tail = tail[:600]
				}
				switch {
				case strings.Contains(out, "out of memory") || strings.Contains(out, "cannot allocate memory"):
					o.crash = "fatal: out of memory"
				case strings.Contains(out, "test timed out") || strings.Contains(out, "panic: test timed out"):
					o.crash = "hang: test timed out"
				case strings.Contains(out, "stack overflow") || strings.Contains(out, "goroutine stack exceeds"):
					o.crash = "fatal: stack overflow"
				default:
					o.crash = "process died: " + strings.ReplaceAll(tail, "\n", " | ")
				}
				o.got = "crash:" + o.crash
			}
		}
		os.Remove(bin)
	}
	return outs, nil
}

// writeReplayDir stores everything needed to re-run one counterexample.
func writeReplayDir(p *interp.Program, prop string, o *nativeOut) string {
	h := fmt.Sprintf("%x", hashVec(o.c.vec))
	lab := regexp.MustCompile(`[^A-Za-z0-9_.-]+`).ReplaceAllString(o.c.label, "_")
	dir := filepath.Join(verifDir, "replays", prop, o.c.harness+"-"+lab+"-"+h)
	os.MkdirAll(dir, 0o755)
	m := map[string]interface{}{"property": prop, "harness": o.c.harness, "label": o.c.label, "kind": o.c.cexKind, "vector": o.c.vec, "expected": o.c.want, "native_outcome": o.got, "crash": o.crash, "pkg_dir": o.c.pkgDir, "pkg_name": o.c.pkgName}
	b, _ := json.MarshalIndent(m, "", " ")
	os.WriteFile(filepath.Join(dir, "model.json"), b, 0o644)
	return dir
}

func hashVec(v []uint64) uint32 {
	h := uint32(2166136261)
	for _, x := range v {
		for i := 0; i < 8; i++ {
			h ^= uint32(x >> (8 * i) & 0xff)
			h *= 16777619
		}
	}
	return h
}

func cmdReplay(args []string) int {
	if len(args) < 1 {
		fmt.Fprintln(os.Stderr, "usage: hv replay <dir>")
		return 2
	}
	b, err := os.ReadFile(filepath.Join(args[0], "model.json"))
	if err != nil {
		fmt.Fprintln(os.Stderr, err)
		return 2
	}
	var m struct {
		Property string   `json:"property"`
		Harness  string   `json:"harness"`
		Label    string   `json:"label"`
		Kind     string   `json:"kind"`
		Vector   []uint64 `json:"vector"`
		Expected string   `json:"expected"`
		PkgDir   string   `json:"pkg_dir"`
		PkgName  string   `json:"pkg_name"`
	}
	if err := json.Unmarshal(b, &m); err != nil {
		fmt.Fprintln(os.Stderr, err)
		return 2
	}
	p, err := interp.Load(repoDir, filepath.Join(verifDir, "harness"))
	if err != nil {
		fmt.Fprintln(os.Stderr, err)
		return 3
	}
	c := nativeCase{harness: m.Harness, kind: "cex", label: m.Label, cexKind: m.Kind, vec: m.Vector, want: m.Expected, pkgDir: m.PkgDir, pkgName: m.PkgName}
	work, _ := os.MkdirTemp(filepath.Join(verifDir, ".work"), "replay")
	defer os.RemoveAll(work)
	outs, err := nativeRunCases(p, []nativeCase{c}, work, false)
	if err != nil {
		fmt.Fprintln(os.Stderr, err)
		return 3
	}
	o := outs[0]
	fmt.Printf("harness=%s label=%s expected=%q native=%q crash=%q\n", m.Harness, m.Label, m.Expected, o.got, o.crash)
	if o.confirmed() {
		fmt.Printf("VIOLATION property=%s replay=%s\n", m.Property, args[0])
		return 1
	}
	fmt.Println("not reproduced on the current tree")
	return 0
}
