package main

import "verif/engine/interp"

func cmdRace(args []string) int { return 0 }

// raceDecide is filled in by the schedule checker (C18).
func raceDecide(p *interp.Program, runs []*harnessRun, thorough bool, known []KnownFinding) (notes []string, violations int, problems []string) {
	return nil, 0, nil
}
