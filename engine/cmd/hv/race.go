package main

import (
	"bytes"
	"fmt"
	"os"
	"os/exec"
	"path/filepath"
	"sort"
	"strconv"
	"strings"
	"time"

	"verif/engine/interp"
	"verif/engine/sym"
)

func cmdRace(args []string) int { return 0 }

type raceCand struct {
	harness string
	key     string // funcA | funcB | location
	a, b    [2]int // (thread, index)
	fa, fb  string
	loc     string
	kindA   string
	kindB   string
	vec     []uint64
}

func shortFn(f string) string {
	// (*github.com/scigolib/hdf5/internal/structures.WritableBTreeV2).BatchRebalance -> BatchRebalance
	if i := strings.LastIndex(f, "."); i >= 0 {
		f = f[i+1:]
	}
	return strings.TrimSuffix(f, "$1")
}

// scheduleQueries decides, for one recorded multi-thread trace, which conflicting access pairs can be made
// adjacent by some schedule that respects program order, goroutine start, channel close/receive,
// WaitGroup and mutual exclusion. The schedule (one integer clock per event) is the solver's variable.
func scheduleQueries(harness string, tt *interp.ThreadTrace, seen map[string]bool, stats *raceStats) []raceCand {
	// 1. shared locations
	type lockey struct{ obj, slot int }
	threadsOf := map[lockey]map[int]bool{}
	writes := map[lockey]bool{}
	// accesses of the main thread before it starts its first goroutine happen before every event of every other
	// thread (all threads descend from that start): they cannot race and are left out
	firstGo := len(tt.Threads[0])
	for i, e := range tt.Threads[0] {
		if e.Kind == "go" {
			firstGo = i
			break
		}
	}
	// ... except lock operations whose section is still open at that start
	openAtStart := map[int]bool{}
	{
		open := map[[2]int][]int{}
		for i, e := range tt.Threads[0][:firstGo] {
			k := [2]int{e.Obj, e.Slot}
			switch e.Kind {
			case "lock", "rlock":
				open[k] = append(open[k], i)
			case "unlock", "runlock":
				if st := open[k]; len(st) > 0 {
					open[k] = st[:len(st)-1]
				}
			}
		}
		for _, st := range open {
			for _, i := range st {
				openAtStart[i] = true
			}
		}
	}
	for ti, evs := range tt.Threads {
		for ei, e := range evs {
			if ti == 0 && ei < firstGo {
				continue
			}
			if e.Kind == "R" || e.Kind == "W" {
				k := lockey{e.Obj, e.Slot}
				if threadsOf[k] == nil {
					threadsOf[k] = map[int]bool{}
				}
				threadsOf[k][ti] = true
				if e.Kind == "W" {
					writes[k] = true
				}
			}
		}
	}
	shared := map[lockey]bool{}
	for k, ts := range threadsOf {
		if len(ts) >= 2 && writes[k] {
			shared[k] = true
		}
	}
	if len(shared) == 0 {
		return nil
	}
	// 2. kept events
	type ev struct {
		interp.Event
		t, i int
		name string
	}
	var kept [][]ev
	for ti, evs := range tt.Threads {
		var l []ev
		l = append(l, ev{Event: interp.Event{Kind: "begin"}, t: ti})
		for ei, e := range evs {
			keep := !(ti == 0 && ei < firstGo) || (ti == 0 && openAtStart[ei]) // (sections closed before the first start order nothing later)
			if keep && (e.Kind == "R" || e.Kind == "W") {
				keep = shared[lockey{e.Obj, e.Slot}]
			}
			if keep {
				l = append(l, ev{Event: e, t: ti})
			}
		}
		for i := range l {
			l[i].i = i
			l[i].name = fmt.Sprintf("c_%d_%d", ti, i)
		}
		kept = append(kept, l)
	}
	var sb strings.Builder
	var all []string
	for _, l := range kept {
		for _, e := range l {
			fmt.Fprintf(&sb, "(declare-const %s Int)\n", e.name)
			all = append(all, e.name)
		}
		for i := 1; i < len(l); i++ {
			fmt.Fprintf(&sb, "(assert (< %s %s))\n", l[i-1].name, l[i].name)
		}
	}
	// (no distinctness constraint is needed: every happens-before edge below is strict, so two events ordered through
	// a third one are at least 2 apart and "b = a + 1" is satisfiable exactly when a and b are unordered)
	// goroutine start, channel and waitgroup edges
	closes := map[int]string{}
	var sends = map[int][]string{}
	for _, l := range kept {
		for _, e := range l {
			switch e.Kind {
			case "go":
				if e.Child < len(kept) && len(kept[e.Child]) > 0 {
					fmt.Fprintf(&sb, "(assert (< %s %s))\n", e.name, kept[e.Child][0].name)
				}
			case "close":
				closes[e.Obj] = e.name
			case "send":
				sends[e.Obj] = append(sends[e.Obj], e.name)
			}
		}
	}
	recvCount := map[int]int{}
	wgDone := map[[2]int][]ev{}
	for _, l := range kept {
		for _, e := range l {
			switch e.Kind {
			case "recvclosed":
				if c, ok := closes[e.Obj]; ok {
					fmt.Fprintf(&sb, "(assert (< %s %s))\n", c, e.name)
				}
			case "recv":
				k := recvCount[e.Obj]
				recvCount[e.Obj]++
				if k < len(sends[e.Obj]) {
					fmt.Fprintf(&sb, "(assert (< %s %s))\n", sends[e.Obj][k], e.name)
				}
			case "wgdone":
				wgDone[[2]int{e.Obj, e.Slot}] = append(wgDone[[2]int{e.Obj, e.Slot}], e)
			}
		}
	}
	for _, l := range kept {
		for _, e := range l {
			if e.Kind == "wgwait" {
				for _, d := range wgDone[[2]int{e.Obj, e.Slot}] {
					if d.t != e.t {
						fmt.Fprintf(&sb, "(assert (< %s %s))\n", d.name, e.name)
					}
				}
			}
		}
	}
	// critical sections
	type section struct {
		t          int
		start, end string
		lo, hi     int
		read       bool
	}
	sections := map[[2]int][]section{}
	for ti, l := range kept {
		open := map[[2]int][]int{}
		for _, e := range l {
			k := [2]int{e.Obj, e.Slot}
			switch e.Kind {
			case "lock", "rlock":
				open[k] = append(open[k], e.i)
			case "unlock", "runlock":
				if st := open[k]; len(st) > 0 {
					s := st[len(st)-1]
					open[k] = st[:len(st)-1]
					sections[k] = append(sections[k], section{t: ti, start: l[s].name, end: e.name, lo: s, hi: e.i, read: e.Kind == "runlock"})
				}
			}
		}
	}
	for _, secs := range sections {
		for i := range secs {
			for j := i + 1; j < len(secs); j++ {
				a, b := secs[i], secs[j]
				if a.t == b.t || (a.read && b.read) {
					continue
				}
				fmt.Fprintf(&sb, "(assert (or (< %s %s) (< %s %s)))\n", a.end, b.start, b.end, a.start)
			}
		}
	}
	secMemo := map[[2]int]map[[2]int]bool{}
	inSection := func(e ev) map[[2]int]bool {
		if m, ok := secMemo[[2]int{e.t, e.i}]; ok {
			return m
		}
		res := map[[2]int]bool{}
		defer func() { secMemo[[2]int{e.t, e.i}] = res }()
		for k, secs := range sections {
			for _, s := range secs {
				if s.t == e.t && s.lo < e.i && e.i < s.hi && !s.read {
					res[k] = true
				}
			}
		}
		return res
	}
	// 3. candidate pairs
	byLoc := map[lockey][]ev{}
	for _, l := range kept {
		for _, e := range l {
			if e.Kind == "R" || e.Kind == "W" {
				byLoc[lockey{e.Obj, e.Slot}] = append(byLoc[lockey{e.Obj, e.Slot}], e)
			}
		}
	}
	var cands []raceCand
	type q struct {
		a, b ev
		key  string
	}
	var queries []q
	shapeCount := map[string]int{}
	shapeLast := map[string]q{}
	for _, evs := range byLoc {
		for i := range evs {
			for j := i + 1; j < len(evs); j++ {
				a, b := evs[i], evs[j]
				if a.t == b.t || (a.Kind == "R" && b.Kind == "R") {
					continue
				}
				fa, fb := shortFn(a.Func), shortFn(b.Func)
				if fa > fb {
					fa, fb = fb, fa
				}
				key := fa + " | " + fb + " | " + a.Name
				if seen[key] {
					continue
				}
				// common write lock => ordered
				la, lb := inSection(a), inSection(b)
				common := false
				for k := range la {
					if lb[k] {
						common = true
					}
				}
				if common {
					continue
				}
				// one representative pair per (functions, location, threads, lock sets): further pairs of the same
				// shape are in the same synchronisation context (at most 2 are asked, the first and the last)
				shape := fmt.Sprintf("%s|%d|%d|%v|%v", key, a.t, b.t, lockSig(la), lockSig(lb))
				if n := shapeCount[shape]; n >= 1 {
					shapeLast[shape] = q{a, b, key}
					shapeCount[shape] = n + 1
					continue
				}
				shapeCount[shape] = 1
				queries = append(queries, q{a, b, key})
			}
		}
	}
	for _, l := range shapeLast {
		queries = append(queries, l)
	}
	if len(queries) == 0 {
		return nil
	}
	sort.Slice(queries, func(i, j int) bool { return queries[i].key < queries[j].key })
	// 4. ask the solver
	ctx := sym.NewCtx()
	s, err := sym.NewSolver("z3", ctx, 20000)
	if err != nil {
		return nil
	}
	defer s.Close()
	s.Raw(sb.String())
	for _, qu := range queries {
		if seen[qu.key] {
			continue
		}
		s.Raw("(push 1)")
		s.Raw(fmt.Sprintf("(assert (= %s (+ %s 1)))", qu.b.name, qu.a.name))
		t0 := time.Now()
		r := s.RawCheck()
		stats.queries++
		stats.time += time.Since(t0)
		if r != sym.Sat {
			// the other order
			s.Raw("(pop 1)")
			s.Raw("(push 1)")
			s.Raw(fmt.Sprintf("(assert (= %s (+ %s 1)))", qu.a.name, qu.b.name))
			r = s.RawCheck()
			stats.queries++
		}
		s.Raw("(pop 1)")
		switch r {
		case sym.Sat:
			stats.sat++
			seen[qu.key] = true
			cands = append(cands, raceCand{harness: harness, key: qu.key, fa: shortFn(qu.a.Func), fb: shortFn(qu.b.Func), loc: qu.a.Name, kindA: qu.a.Kind, kindB: qu.b.Kind, vec: tt.Vector})
		case sym.Unsat:
			stats.unsat++
			if os.Getenv("VERIF_DEBUG") != "" {
				fmt.Fprintf(os.Stderr, "race unsat: %s (%s t%d#%d vs %s t%d#%d)\n", qu.key, qu.a.Kind, qu.a.t, qu.a.i, qu.b.Kind, qu.b.t, qu.b.i)
			}
		default:
			stats.unknown++
		}
	}
	stats.events += len(all)
	return cands
}

type raceStats struct {
	queries, sat, unsat, unknown, events int
	time                                 time.Duration
	traces                               int
}

// raceDecide runs the schedule queries for every trace-mode harness and confirms candidates with `go test -race`.
func raceDecide(p *interp.Program, runs []*harnessRun, thorough bool, known []KnownFinding) (notes []string, violations int, problems []string) {
	stats := &raceStats{}
	var cands []raceCand
	for _, r := range runs {
		if r.res == nil || len(r.res.Events) == 0 {
			continue
		}
		seen := map[string]bool{}
		for _, tt := range r.res.Events {
			if tt == nil || len(tt.Threads) < 2 {
				continue
			}
			stats.traces++
			cands = append(cands, scheduleQueries(r.name, tt, seen, stats)...)
		}
	}
	notes = append(notes, fmt.Sprintf("schedule checker: %d multi-thread traces, %d events, %d schedule queries (sat %d unsat %d unknown %d) solver %.1fs",
		stats.traces, stats.events, stats.queries, stats.sat, stats.unsat, stats.unknown, stats.time.Seconds()))
	if stats.unknown > 0 {
		problems = append(problems, fmt.Sprintf("%d schedule queries returned unknown", stats.unknown))
	}
	if len(cands) == 0 {
		return
	}
	// confirmation: run each harness natively under the race detector once and look for the two functions in one report
	byHarness := map[string][]raceCand{}
	for _, c := range cands {
		byHarness[c.harness] = append(byHarness[c.harness], c)
	}
	var hs []string
	for h := range byHarness {
		hs = append(hs, h)
	}
	sort.Strings(hs)
	for _, h := range hs {
		var vecs [][]uint64
		seenVec := map[string]bool{}
		for _, c := range byHarness[h] {
			k := fmt.Sprint(c.vec)
			if !seenVec[k] && len(vecs) < 4 {
				seenVec[k] = true
				vecs = append(vecs, c.vec)
			}
		}
		reports, err := nativeRaceRunVecs(p, h, vecs)
		if err != nil {
			problems = append(problems, "race replay: "+err.Error())
			continue
		}
		donePair := map[string]bool{}
		for _, c := range byHarness[h] {
			if donePair[c.fa+" | "+c.fb] {
				continue
			}
			confirmed := false
			for _, rep := range reports {
				if strings.Contains(rep, "."+c.fa+"(") && strings.Contains(rep, "."+c.fb+"(") {
					confirmed = true
				}
				if c.fa == c.fb && strings.Count(rep, "."+c.fa+"(") >= 2 {
					confirmed = true
				}
			}
			desc := fmt.Sprintf("%s (%s) and %s (%s) on %s", c.fa, c.kindA, c.fb, c.kindB, c.loc)
			if !confirmed {
				notes = append(notes, "NOTE: schedule found for "+desc+" in "+h+" but the race detector did not report it in the replay run (not counted)")
				continue
			}
			donePair[c.fa+" | "+c.fb] = true
			var kf *KnownFinding
			for i := range known {
				k := &known[i]
				if k.Property == "C18" && k.Status == "open" && harnessMatch(strings.TrimPrefix(k.Harness, "race:"), h) && strings.HasPrefix(k.Harness, "race:") && k.Label == c.fa+" | "+c.fb {
					kf = k
				}
			}
			if kf != nil {
				notes = append(notes, fmt.Sprintf("KNOWN-FINDING: property=C18 %s data race %s: %s", kf.ID, desc, kf.What))
				continue
			}
			violations++
			dir := filepath.Join(verifDir, "replays", "C18", h+"-"+strings.ReplaceAll(c.fa+"_"+c.fb, " ", ""))
			os.MkdirAll(dir, 0o755)
			os.WriteFile(filepath.Join(dir, "race.txt"), []byte(desc+"\n\n"+strings.Join(reports, "\n----\n")), 0o644)
			os.WriteFile(filepath.Join(dir, "model.json"), []byte(fmt.Sprintf(`{"property":"C18","harness":%q,"label":%q,"kind":"race","vector":[],"expected":"race","pkg_dir":"","pkg_name":""}`, h, c.fa+" | "+c.fb)), 0o644)
			notes = append(notes, fmt.Sprintf("VIOLATION property=C18 replay=%s", dir))
			notes = append(notes, "  data race: "+desc)
		}
	}
	return
}

// nativeRaceRun executes one harness natively under `go test -race` and returns the race reports.
func nativeRaceRunVecs(p *interp.Program, harness string, vecs [][]uint64) ([]string, error) {
	raceVecs = vecs
	defer func() { raceVecs = nil }()
	return nativeRaceRunFn(p, harness, "")
}

var raceVecs [][]uint64

// nativeRaceRunFn: with driver != "" the native-only concurrent driver of that name is called directly (it starts its
// own goroutines); lines starting VERIF-MISMATCH in its output are returned as reports too.
func nativeRaceRunFn(p *interp.Program, harness, driver string) ([]string, error) {
	dir, pn := harnessPkg(p, harness)
	work, _ := os.MkdirTemp(filepath.Join(verifDir, ".work"), "race-")
	defer os.RemoveAll(work)
	src := "//go:build verif\n\npackage " + pn + "\n\nimport (\n\t\"os\"\n\t\"testing\"\n\n\t\"github.com/scigolib/hdf5/internal/vrt\"\n)\n\nfunc TestVerifRace(t *testing.T) {\n\tif wd, err := os.Getwd(); err == nil {\n\t\tos.Setenv(\"VERIF_PKG_DIR\", wd)\n\t}\n\t_ = os.Chdir(t.TempDir())\n\tout, _ := vrt.Run(" + harness + ", nil)\n\tt.Log(out)\n}\n"
	if len(raceVecs) > 0 {
		// the inputs of the paths the candidate schedules were found on; schedule-mode harnesses are repeated with
		// random decisions at their schedule points
		var vb strings.Builder
		for _, v := range raceVecs {
			vb.WriteString("\t\t{")
			for i, x := range v {
				if i > 0 {
					vb.WriteString(", ")
				}
				fmt.Fprintf(&vb, "%d", x)
			}
			vb.WriteString("},\n")
		}
		reps := 1
		if strings.Contains(harness, "_sched") {
			reps = 8
		}
		src = "//go:build verif\n\npackage " + pn + "\n\nimport (\n\t\"os\"\n\t\"testing\"\n\n\t\"github.com/scigolib/hdf5/internal/vrt\"\n)\n\nfunc TestVerifRace(t *testing.T) {\n\tif wd, err := os.Getwd(); err == nil {\n\t\tos.Setenv(\"VERIF_PKG_DIR\", wd)\n\t}\n\t_ = os.Chdir(t.TempDir())\n\tvecs := [][]uint64{\n" + vb.String() + "\t}\n\tfor _, v := range vecs {\n\t\tfor r := 0; r < " + strconv.Itoa(reps) + "; r++ {\n\t\t\tout, _ := vrt.Run(" + harness + ", v)\n\t\t\tt.Log(out)\n\t\t}\n\t}\n}\n"
	}
	if driver != "" {
		src = "//go:build verif\n\npackage " + pn + "\n\nimport (\n\t\"os\"\n\t\"testing\"\n)\n\nfunc TestVerifRace(t *testing.T) {\n\tif wd, err := os.Getwd(); err == nil {\n\t\tos.Setenv(\"VERIF_PKG_DIR\", wd)\n\t}\n\t_ = os.Chdir(t.TempDir())\n\tfor _, l := range " + driver + "() {\n\t\tprintln(\"VERIF-MISMATCH \" + l)\n\t}\n}\n"
	}
	testFile := filepath.Join(work, "zz_verif_race_test.go")
	os.WriteFile(testFile, []byte(src), 0o644)
	repl := map[string]string{}
	for v, real := range p.Overlay {
		repl[v] = real
	}
	repl[filepath.Join(repoDir, dir, "zz_verif_race_test.go")] = testFile
	ovb := []byte("{\"Replace\":{")
	first := true
	var keys []string
	for k := range repl {
		keys = append(keys, k)
	}
	sort.Strings(keys)
	for _, k := range keys {
		if !first {
			ovb = append(ovb, ',')
		}
		first = false
		ovb = append(ovb, []byte(strconv.Quote(k)+":"+strconv.Quote(repl[k]))...)
	}
	ovb = append(ovb, []byte("}}")...)
	ovFile := filepath.Join(work, "overlay.json")
	os.WriteFile(ovFile, ovb, 0o644)
	cmd := exec.Command("go", "test", "-race", "-tags", "verif", "-vet=off", "-count=1", "-run", "^TestVerifRace$", "-overlay", ovFile, "./"+dir)
	cmd.Dir = repoDir
	cmd.Env = append(goEnv(), "GORACE=halt_on_error=0", "VERIF_TIER="+os.Getenv("VERIF_TIER"), "VERIF_SCHED_RANDOM=1")
	var buf bytes.Buffer
	cmd.Stdout = &buf
	cmd.Stderr = &buf
	done := make(chan error, 1)
	go func() { done <- cmd.Run() }()
	select {
	case <-done:
	case <-time.After(180 * time.Second):
		cmd.Process.Kill()
		return nil, fmt.Errorf("race replay of %s timed out", harness)
	}
	out := buf.String()
	if strings.Contains(out, "build failed") || strings.Contains(out, "[build failed]") {
		return nil, fmt.Errorf("race replay build failed: %s", out)
	}
	var reports []string
	parts := strings.Split(out, "WARNING: DATA RACE")
	for _, pt := range parts[1:] {
		if i := strings.Index(pt, "=================="); i >= 0 {
			pt = pt[:i]
		}
		reports = append(reports, pt)
	}
	for _, l := range strings.Split(out, "\n") {
		if strings.HasPrefix(l, "VERIF-MISMATCH ") {
			reports = append(reports, l)
		}
	}
	return reports, nil
}

func lockSig(m map[[2]int]bool) string {
	var ks []string
	for k := range m {
		ks = append(ks, fmt.Sprintf("%d.%d", k[0], k[1]))
	}
	sort.Strings(ks)
	return strings.Join(ks, ",")
}
