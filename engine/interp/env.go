package interp

import (
	"fmt"
	"go/types"
	"strings"

	"golang.org/x/tools/go/ssa"
)

// ---- in-memory file system (model of *os.File) ----

type memFile struct {
	name   string
	data   []Val // bytes
	pool   *poolState
	writes [][2]int
	reads  int
}

type fileHandle struct {
	f      *memFile
	closed bool
	pos    int
	rdonly bool
}

func (it *Interp) osErr(msg string) Val {
	ep := it.prog.ImportedPackage("errors")
	et := ep.Type("errorString").Type()
	o := it.allocType(et, "os error")
	o.Slots[0] = Str{S: msg}
	return Iface{T: types.NewPointer(et), V: Ptr{Obj: o}}
}

func (it *Interp) osCall(name string, args []Val) Val {
	it.stub("os files = in-memory byte arrays per name (ReadAt past the end returns a short count and io.EOF; no I/O faults)")
	nm := args[0].(Str).Conc()
	switch name {
	case "Create":
		f := &memFile{name: nm}
		it.files["file:"+nm] = f
		return Tuple{&Opaque{Kind: "os.File", V: &fileHandle{f: f}}, Iface{}}
	case "Open":
		f, ok := it.files["file:"+nm]
		if !ok {
			return Tuple{Ptr{}, it.osErr("open " + nm + ": no such file or directory")}
		}
		return Tuple{&Opaque{Kind: "os.File", V: &fileHandle{f: f, rdonly: true}}, Iface{}}
	case "OpenFile":
		flag := args[1].(Int).C
		const oCreate, oExcl, oTrunc, oRdwr, oWronly = 0x40, 0x80, 0x200, 0x2, 0x1
		f, ok := it.files["file:"+nm]
		if ok && flag&oCreate != 0 && flag&oExcl != 0 {
			return Tuple{Ptr{}, it.osErr("open " + nm + ": file exists")}
		}
		if !ok {
			if flag&oCreate == 0 {
				return Tuple{Ptr{}, it.osErr("open " + nm + ": no such file or directory")}
			}
			f = &memFile{name: nm}
			it.files["file:"+nm] = f
		}
		if flag&oTrunc != 0 {
			f.data = nil
		}
		return Tuple{&Opaque{Kind: "os.File", V: &fileHandle{f: f, rdonly: flag&(oRdwr|oWronly) == 0}}, Iface{}}
	case "Remove":
		delete(it.files, "file:"+nm)
		return Iface{}
	case "Stat":
		f, ok := it.files["file:"+nm]
		if !ok {
			return Tuple{Iface{}, it.osErr("stat " + nm + ": no such file or directory")}
		}
		return Tuple{Iface{T: &opaqueType{"fileinfo"}, V: &Opaque{Kind: "fileinfo", V: f}}, Iface{}}
	case "Truncate":
		f, ok := it.files["file:"+nm]
		if !ok {
			return it.osErr("truncate " + nm + ": no such file")
		}
		n := args[1].(Int)
		sz := int(it.concretize(n, 64, "os.Truncate size"))
		it.fileResize(f, sz)
		return Iface{}
	case "ReadFile":
		f, ok := it.files["file:"+nm]
		if !ok {
			return Tuple{Slice{ES: 1}, it.osErr("open " + nm + ": no such file or directory")}
		}
		return Tuple{it.bytesToSlice(append([]Val(nil), f.data...), "os.ReadFile"), Iface{}}
	case "WriteFile":
		f := &memFile{name: nm, data: append([]Val(nil), it.sliceVals(args[1].(Slice))...)}
		it.files["file:"+nm] = f
		return Iface{}
	}
	it.unsupported("os." + name)
	return nil
}

func (it *Interp) fileResize(f *memFile, sz int) {
	if sz <= len(f.data) {
		f.data = f.data[:sz:sz]
		return
	}
	nd := make([]Val, sz)
	copy(nd, f.data)
	for i := len(f.data); i < sz; i++ {
		nd[i] = CInt(8, 0)
	}
	f.data = nd
}

func (it *Interp) fileCall(name string, args []Val) Val {
	op, ok := args[0].(*Opaque)
	if !ok {
		it.goPanic("runtime error: invalid memory address or nil pointer dereference")
	}
	h := op.V.(*fileHandle)
	f := h.f
	closedErr := func() Val { return it.osErr("file already closed") }
	switch name {
	case "File.ReadAt":
		buf := args[1].(Slice)
		off := args[2].(Int)
		if h.closed {
			return Tuple{CInt(64, 0), closedErr()}
		}
		o := int(sext(it.concretize(off, 32, "ReadAt offset"), 64))
		if o < 0 {
			return Tuple{CInt(64, 0), it.osErr("negative offset")}
		}
		f.reads++
		n := 0
		for i := 0; i < buf.Len && o+i < len(f.data); i++ {
			it.setSlot(buf.Obj, buf.Off+i, f.data[o+i])
			n++
		}
		if n < buf.Len {
			return Tuple{CInt(64, uint64(n)), it.ioEOF()}
		}
		return Tuple{CInt(64, uint64(n)), Iface{}}
	case "File.WriteAt":
		buf := args[1].(Slice)
		off := args[2].(Int)
		if h.closed {
			return Tuple{CInt(64, 0), closedErr()}
		}
		if h.rdonly {
			return Tuple{CInt(64, 0), it.osErr("bad file descriptor")}
		}
		o := int(sext(it.concretize(off, 32, "WriteAt offset"), 64))
		if o < 0 {
			return Tuple{CInt(64, 0), it.osErr("negative offset")}
		}
		if o+buf.Len > 64<<20 {
			it.violationNow("file-size-budget", fmt.Sprintf("write at offset %d beyond the engine's 64 MiB file model", o))
		}
		if o+buf.Len > len(f.data) {
			it.fileResize(f, o+buf.Len)
		}
		for i := 0; i < buf.Len; i++ {
			f.data[o+i] = it.getSlot(buf.Obj, buf.Off+i)
		}
		f.writes = append(f.writes, [2]int{o, buf.Len})
		return Tuple{CInt(64, uint64(buf.Len)), Iface{}}
	case "File.Write":
		buf := args[1].(Slice)
		if h.closed {
			return Tuple{CInt(64, 0), closedErr()}
		}
		o := h.pos
		if o+buf.Len > len(f.data) {
			it.fileResize(f, o+buf.Len)
		}
		for i := 0; i < buf.Len; i++ {
			f.data[o+i] = it.getSlot(buf.Obj, buf.Off+i)
		}
		h.pos += buf.Len
		f.writes = append(f.writes, [2]int{o, buf.Len})
		return Tuple{CInt(64, uint64(buf.Len)), Iface{}}
	case "File.Read":
		buf := args[1].(Slice)
		if h.closed {
			return Tuple{CInt(64, 0), closedErr()}
		}
		n := 0
		for i := 0; i < buf.Len && h.pos < len(f.data); i++ {
			it.setSlot(buf.Obj, buf.Off+i, f.data[h.pos])
			h.pos++
			n++
		}
		if n == 0 && buf.Len > 0 {
			return Tuple{CInt(64, 0), it.ioEOF()}
		}
		return Tuple{CInt(64, uint64(n)), Iface{}}
	case "File.Seek":
		off := int(sext(args[1].(Int).C, 64))
		switch args[2].(Int).C {
		case 0:
			h.pos = off
		case 1:
			h.pos += off
		case 2:
			h.pos = len(f.data) + off
		}
		return Tuple{CInt(64, uint64(h.pos)), Iface{}}
	case "File.Close":
		if h.closed {
			return closedErr()
		}
		h.closed = true
		return Iface{}
	case "File.Sync":
		if h.closed {
			return closedErr()
		}
		return Iface{}
	case "File.Truncate":
		if h.closed {
			return closedErr()
		}
		sz := int(it.concretize(args[1].(Int), 64, "Truncate size"))
		it.fileResize(f, sz)
		return Iface{}
	case "File.Stat":
		if h.closed {
			return Tuple{Iface{}, closedErr()}
		}
		return Tuple{Iface{T: &opaqueType{"fileinfo"}, V: &Opaque{Kind: "fileinfo", V: f}}, Iface{}}
	case "File.Name":
		return Str{S: f.name}
	}
	it.unsupported("os." + name)
	return nil
}

func (it *Interp) ioEOF() Val {
	p := it.prog.ImportedPackage("io")
	g := p.Members["EOF"].(*ssa.Global)
	return it.load(Ptr{Obj: it.globalObj(g)}, derefType(g.Type()))
}

// invokeIntrinsic handles interface method calls on engine-owned values.
func (it *Interp) invokeIntrinsic(recv Iface, m *types.Func, args []Val) (Val, bool) {
	op, ok := recv.V.(*Opaque)
	if !ok {
		return nil, false
	}
	switch op.Kind {
	case "fileinfo":
		f := op.V.(*memFile)
		switch m.Name() {
		case "Size":
			return CInt(64, uint64(len(f.data))), true
		case "Name":
			return Str{S: f.name}, true
		case "IsDir":
			return Bool{C: false}, true
		}
	case "os.File":
		return it.fileCall("File."+m.Name(), append([]Val{op}, args...)), true
	case "context":
		return it.contextMethod(op.V.(*ctxState), m.Name(), args), true
	case "rtype":
		return it.rtypeMethod(op.V.(types.Type), m.Name(), args), true
	}
	it.unsupported("method " + m.Name() + " on engine value " + op.Kind)
	return nil, false
}

// ---- time ----

const hasMonotonic = 1 << 63

func (it *Interp) timeNow() Val {
	// monotonic representation: wall = hasMonotonic | sec33<<30 | nsec ; ext = monotonic ns
	it.stub("time.Now = strictly increasing concrete instants (1 µs apart)")
	it.nClock++
	secs := uint64(1_700_000_000 - 59453308800 + 62135596800) // some 2023 instant relative to 1885
	secs = uint64(4_354_000_000) & ((1 << 33) - 1)
	wall := uint64(hasMonotonic) | secs<<30
	ext := uint64(it.nClock) * 1_000
	return Agg{CInt(64, wall), CInt(64, ext), Ptr{}}
}

type tickerState struct{ ch *ChanObj }

// tickBudget: ticks a time.Ticker may deliver on one path
const tickBudget = 2

func (it *Interp) newTicker(d Val) Val {
	it.nextObj++
	ch := &ChanObj{ID: it.nextObj, Cap: 1, Ticker: true, Budget: tickBudget}
	tp := it.prog.ImportedPackage("time").Type("Ticker").Type()
	o := it.allocType(tp, "time.NewTicker")
	o.Slots[0] = ch
	return Ptr{Obj: o}
}

// ---- context ----

type ctxState struct {
	done     *ChanObj
	canceled bool
	parent   *ctxState
	children []*ctxState
}

func (it *Interp) contextWithCancel(parent Val) Val {
	it.nextObj++
	cs := &ctxState{done: &ChanObj{ID: it.nextObj}}
	if p, ok := parent.(Iface); ok {
		if op, ok := p.V.(*Opaque); ok {
			cs.parent, _ = op.V.(*ctxState)
		}
	}
	if cs.parent != nil {
		cs.parent.children = append(cs.parent.children, cs)
		if cs.parent.canceled {
			cs.canceled = true
			cs.done.Closed = true
		}
	}
	ctx := Iface{T: &opaqueType{"context"}, V: &Opaque{Kind: "context", V: cs}}
	cancel := Closure{Builtin: "engine:cancel", Bind: []Val{&Opaque{Kind: "context", V: cs}}}
	return Tuple{ctx, cancel}
}

func (it *Interp) contextMethod(cs *ctxState, name string, args []Val) Val {
	switch name {
	case "Done":
		if cs.done == nil {
			return (*ChanObj)(nil)
		}
		return cs.done
	case "Err":
		if cs.canceled {
			return it.osErr("context canceled")
		}
		return Iface{}
	case "Value":
		return Iface{}
	case "Deadline":
		return Tuple{it.zeroVal(it.prog.ImportedPackage("time").Type("Time").Type()), Bool{C: false}}
	}
	it.unsupported("context." + name)
	return nil
}

func (it *Interp) contextCall(name string, args []Val) Val {
	it.unsupported("context." + name)
	return nil
}

// ---- reflect ----

type rvalue struct {
	t types.Type
	v Val
}

func (it *Interp) reflectValueOf(i Iface) Val {
	it.stub("reflect = native reflection over the engine's (dynamic type, value) pairs")
	return Agg{&Opaque{Kind: "reflect.Value", V: &rvalue{t: i.T, v: i.V}}, Ptr{}, CInt(64, 0)}
}

func (it *Interp) reflectType(t types.Type) Val {
	return Iface{T: &opaqueType{"rtype"}, V: &Opaque{Kind: "rtype", V: t}}
}

func kindOf(t types.Type) uint64 {
	if t == nil {
		return 0
	}
	switch u := t.Underlying().(type) {
	case *types.Basic:
		switch u.Kind() {
		case types.Bool:
			return 1
		case types.Int:
			return 2
		case types.Int8:
			return 3
		case types.Int16:
			return 4
		case types.Int32:
			return 5
		case types.Int64:
			return 6
		case types.Uint:
			return 7
		case types.Uint8:
			return 8
		case types.Uint16:
			return 9
		case types.Uint32:
			return 10
		case types.Uint64:
			return 11
		case types.Uintptr:
			return 12
		case types.Float32:
			return 13
		case types.Float64:
			return 14
		case types.Complex64:
			return 15
		case types.Complex128:
			return 16
		case types.String:
			return 24
		case types.UnsafePointer:
			return 26
		}
	case *types.Array:
		return 17
	case *types.Chan:
		return 18
	case *types.Signature:
		return 19
	case *types.Interface:
		return 20
	case *types.Map:
		return 21
	case *types.Pointer:
		return 22
	case *types.Slice:
		return 23
	case *types.Struct:
		return 25
	}
	return 0
}

func (it *Interp) rv(v Val) *rvalue {
	if a, ok := v.(Agg); ok && len(a) > 0 {
		if op, ok := a[0].(*Opaque); ok {
			return op.V.(*rvalue)
		}
		return &rvalue{}
	}
	it.engineBug("not a reflect.Value: " + describe(v))
	return nil
}

func (it *Interp) mkrv(t types.Type, v Val) Val {
	return Agg{&Opaque{Kind: "reflect.Value", V: &rvalue{t: t, v: v}}, Ptr{}, CInt(64, 0)}
}

func (it *Interp) reflectCall(name string, args []Val, c *ssa.CallCommon) Val {
	if !strings.HasPrefix(name, "Value.") {
		it.unsupported("reflect." + name)
	}
	r := it.rv(args[0])
	switch name {
	case "Value.Kind":
		return CInt(64, kindOf(r.t))
	case "Value.IsValid":
		return Bool{C: r.t != nil}
	case "Value.Type":
		return it.reflectType(r.t)
	case "Value.Len":
		switch x := r.v.(type) {
		case Slice:
			return CInt(64, uint64(x.Len))
		case Str:
			return CInt(64, uint64(x.Len()))
		case *MapObj:
			return CInt(64, uint64(len(x.Keys)))
		}
		if at, ok := r.t.Underlying().(*types.Array); ok {
			return CInt(64, uint64(at.Len()))
		}
	case "Value.Index":
		i := int(args[1].(Int).C)
		switch x := r.v.(type) {
		case Slice:
			et := r.t.Underlying().(*types.Slice).Elem()
			if i < 0 || i >= x.Len {
				it.goPanic("reflect: slice index out of range")
			}
			return it.mkrv(et, it.loadAt(x.Obj, x.Off+i*x.ES, et))
		case Str:
			return it.mkrv(types.Typ[types.Uint8], x.At(i))
		}
		if at, ok := r.t.Underlying().(*types.Array); ok {
			es := it.slotCount(at.Elem())
			var a Agg
			if ag, ok := r.v.(Agg); ok {
				a = ag
			} else {
				a = Agg{r.v}
			}
			if es == 1 {
				return it.mkrv(at.Elem(), a[i])
			}
			return it.mkrv(at.Elem(), Agg(append([]Val(nil), a[i*es:(i+1)*es]...)))
		}
	case "Value.Int":
		i := r.v.(Int)
		return it.resize(i, 64, true)
	case "Value.Uint":
		i := r.v.(Int)
		return it.resize(i, 64, false)
	case "Value.Float":
		i := r.v.(Int)
		return it.floatToFloat(i, 64)
	case "Value.String":
		if s, ok := r.v.(Str); ok {
			return s
		}
		return Str{S: "<" + r.t.String() + " Value>"}
	case "Value.Bool":
		return r.v
	case "Value.Interface":
		if types.IsInterface(r.t) {
			return r.v
		}
		return Iface{T: r.t, V: r.v}
	case "Value.IsNil":
		switch x := r.v.(type) {
		case Ptr:
			return Bool{C: x.Obj == nil}
		case Slice:
			return Bool{C: x.Obj == nil}
		case *MapObj:
			return Bool{C: x == nil}
		case Iface:
			return Bool{C: x.T == nil}
		}
	case "Value.Elem":
		switch x := r.v.(type) {
		case Ptr:
			et := derefType(r.t)
			return it.mkrv(et, it.load(x, et))
		case Iface:
			return it.mkrv(x.T, x.V)
		}
	case "Value.NumField":
		return CInt(64, uint64(r.t.Underlying().(*types.Struct).NumFields()))
	case "Value.Bytes":
		return r.v
	case "Value.CanInterface", "Value.CanAddr":
		return Bool{C: true}
	}
	it.unsupported("reflect." + name)
	return nil
}

func (it *Interp) rtypeMethod(t types.Type, name string, args []Val) Val {
	switch name {
	case "Kind":
		return CInt(64, kindOf(t))
	case "Elem":
		switch u := t.Underlying().(type) {
		case *types.Slice:
			return it.reflectType(u.Elem())
		case *types.Array:
			return it.reflectType(u.Elem())
		case *types.Pointer:
			return it.reflectType(u.Elem())
		case *types.Map:
			return it.reflectType(u.Elem())
		}
	case "String", "Name":
		return Str{S: types.TypeString(t, func(p *types.Package) string { return p.Name() })}
	case "Size":
		if b, ok := t.Underlying().(*types.Basic); ok {
			return CInt(64, uint64(basicWidth(b)/8))
		}
	case "Len":
		if at, ok := t.Underlying().(*types.Array); ok {
			return CInt(64, uint64(at.Len()))
		}
	}
	it.unsupported("reflect.Type." + name)
	return nil
}

// ---- package initialisation ----

var initAllow = map[string]bool{
	"io": true, "errors": true, "encoding/binary": true, "bytes": true, "strings": true, "sort": true, "math": true,
	"math/bits": true, "unicode/utf8": true, "strconv": true, "unicode": false, "time": false, "fmt": false,
	"hash/crc32": true, "hash/adler32": true, "compress/flate": true, "compress/gzip": true, "compress/zlib": true, "bufio": true, "io/fs": true, "slices": true, "maps": true, "cmp": true, "path": true, "context": false,
}

func (it *Interp) initAllowed(path string) bool {
	if strings.HasPrefix(path, "github.com/scigolib/hdf5") {
		return !strings.Contains(path, "/cmd/") && !strings.Contains(path, "/examples/")
	}
	return initAllow[path]
}

// runInits executes the init functions of the harness package and its (allowed) dependencies, concretely.
func (it *Interp) runInits(fn *ssa.Function) (err error) {
	if it.initObjs > 0 || fn.Pkg == nil {
		return nil
	}
	it.initPhase = true
	it.files = map[string]*memFile{}
	it.loopBound = 100000
	it.allocBudg = 1 << 24
	defer func() {
		it.initPhase = false
		it.initObjs = it.nextObj + 1
		if r := recover(); r != nil {
			switch x := r.(type) {
			case *pathEnd:
				err = fmt.Errorf("%s", x.reason)
			case *goPanicVal:
				err = fmt.Errorf("panic in init: %s", x.msg)
			case *engineBugVal:
				err = fmt.Errorf("engine: %s", x.msg)
			default:
				panic(r)
			}
		}
	}()
	saveRes := it.res
	it.res = &Result{Labels: map[string]*LabelStat{}, Functions: map[string]bool{}, Stubs: map[string]bool{}, Covered: map[string]bool{}, WantCovered: map[string]bool{}, Bounds: map[string]int{}}
	defer func() { it.res = saveRes }()
	it.initPackage(fn.Pkg)
	return nil
}

func (it *Interp) initPackage(p *ssa.Package) {
	if it.initDone[p] {
		return
	}
	it.initDone[p] = true
	// dependencies first
	for _, imp := range p.Pkg.Imports() {
		if !it.initAllowed(imp.Path()) {
			continue
		}
		if sp := it.prog.Package(imp); sp != nil {
			it.initPackage(sp)
		}
	}
	if !it.initAllowed(p.Pkg.Path()) {
		return
	}
	if init := p.Func("init"); init != nil && init.Blocks != nil {
		it.inInit = p
		if strings.HasPrefix(p.Pkg.Path(), "github.com/scigolib/hdf5") {
			it.callFunction2(init, nil)
			return
		}
		// standard library: best effort (a package whose init needs the runtime stays partially initialised)
		func() {
			defer func() {
				if r := recover(); r != nil {
					switch x := r.(type) {
					case *pathEnd:
						it.InitNotes = append(it.InitNotes, p.Pkg.Path()+": "+x.reason)
					case *engineBugVal:
						it.InitNotes = append(it.InitNotes, p.Pkg.Path()+": "+x.msg)
					case *goPanicVal:
						it.InitNotes = append(it.InitNotes, p.Pkg.Path()+": panic "+x.msg)
					default:
						panic(r)
					}
				}
			}()
			it.callFunction2(init, nil)
		}()
	}
}

// callFunction2 is callFunction with intrinsic short-cuts for init functions of other packages.
func (it *Interp) callFunction2(fn *ssa.Function, args []Val) Val {
	if fn.Name() == "init" && fn.Pkg != nil && fn.Signature.Recv() == nil && fn.Parent() == nil && it.initPhase {
		if fn.Pkg != it.inInit {
			// a dependency's init called from the generated package init: handled by initPackage
			return nil
		}
	}
	bind := it.pendingBind
	it.pendingBind = nil
	return it.callFunctionB(fn, args, bind)
}
