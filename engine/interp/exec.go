package interp

import (
	"os"
	"fmt"
	"go/constant"
	"go/token"
	"go/types"
	"math"
	"strings"

	"golang.org/x/tools/go/ssa"

	"verif/engine/sym"
)

type funcInfo struct {
	idx map[ssa.Value]int
	n   int
}

type frameState struct {
	fn     *ssa.Function
	env    []Val
	info   *funcInfo
	defers []deferred
	panicV *goPanicVal
	visits map[*ssa.BasicBlock]int
	result Val
}

type deferred struct {
	fn   Val
	args []Val
	call *ssa.CallCommon
}

func (it *Interp) info(fn *ssa.Function) *funcInfo {
	if fi, ok := it.finfo[fn]; ok {
		return fi
	}
	fi := &funcInfo{idx: map[ssa.Value]int{}}
	add := func(v ssa.Value) {
		fi.idx[v] = fi.n
		fi.n++
	}
	for _, p := range fn.Params {
		add(p)
	}
	for _, p := range fn.FreeVars {
		add(p)
	}
	for _, b := range fn.Blocks {
		for _, ins := range b.Instrs {
			if v, ok := ins.(ssa.Value); ok {
				add(v)
			}
		}
	}
	it.finfo[fn] = fi
	return fi
}

func constString(k *ssa.Const) string {
	if k.Value != nil && k.Value.Kind() == constant.String {
		return constant.StringVal(k.Value)
	}
	return ""
}

func (it *Interp) constVal(k *ssa.Const) Val {
	t := k.Type()
	if k.Value == nil {
		return it.zeroVal(t)
	}
	switch u := t.Underlying().(type) {
	case *types.Basic:
		switch {
		case u.Info()&types.IsBoolean != 0:
			return Bool{C: constant.BoolVal(k.Value)}
		case u.Info()&types.IsString != 0:
			return Str{S: constant.StringVal(k.Value)}
		case u.Info()&types.IsInteger != 0:
			w := basicWidth(u)
			if i, ok := constant.Int64Val(constant.ToInt(k.Value)); ok {
				return CInt(w, uint64(i))
			}
			if i, ok := constant.Uint64Val(constant.ToInt(k.Value)); ok {
				return CInt(w, i)
			}
		case u.Info()&types.IsFloat != 0:
			f, _ := constant.Float64Val(k.Value)
			if basicWidth(u) == 32 {
				return CInt(32, uint64(math.Float32bits(float32(f))))
			}
			return CInt(64, math.Float64bits(f))
		}
	case *types.TypeParam:
	}
	it.unsupported("constant " + k.String())
	return nil
}

func (it *Interp) globalObj(g *ssa.Global) *Object {
	if o, ok := it.globals[g]; ok {
		return o
	}
	save := it.initPhase
	it.initPhase = true // globals are base objects: stores are journaled
	o := it.allocType(derefType(g.Type()), "global "+g.String())
	it.initPhase = save
	o.Base = true
	it.globals[g] = o
	return o
}

func (it *Interp) get(fr *frameState, v ssa.Value) Val {
	switch x := v.(type) {
	case *ssa.Const:
		return it.constVal(x)
	case *ssa.Global:
		return Ptr{Obj: it.globalObj(x)}
	case *ssa.Function:
		return Closure{Fn: x}
	case *ssa.Builtin:
		return Closure{Builtin: x.Name()}
	}
	i, ok := fr.info.idx[v]
	if !ok {
		it.engineBug("unknown ssa value " + v.Name())
	}
	return fr.env[i]
}

func (it *Interp) set(fr *frameState, v ssa.Value, x Val) {
	fr.env[fr.info.idx[v]] = x
}

const maxDepth = 400

// callFunction interprets fn with the given arguments.
func (it *Interp) callFunction(fn *ssa.Function, args []Val) Val {
	return it.callFunctionB(fn, args, nil)
}

var traceCalls = os.Getenv("VERIF_TRACE_CALLS") != ""

func (it *Interp) callFunctionB(fn *ssa.Function, args []Val, bind []Val) (ret Val) {
	if fn.Blocks == nil {
		it.unsupported("function without body: " + fn.String())
	}
	it.depth++
	if it.depth > maxDepth {
		it.depth--
		it.violationNow("stack-depth", fmt.Sprintf("call depth above %d in %s (unbounded recursion)", maxDepth, fn.String()))
		it.endPath("recursion bound", true)
	}
	it.curFn = append(it.curFn, fn)
	if traceCalls {
		fmt.Fprintf(os.Stderr, "CALL p%d s%d %s\n", it.res.Paths, it.res.Steps, fn.String())
	}
	if !it.res.Functions[fn.String()] {
		it.res.Functions[fn.String()] = true
	}
	fi := it.info(fn)
	fr := &frameState{fn: fn, env: make([]Val, fi.n), info: fi}
	for i, p := range fn.Params {
		if i < len(args) {
			fr.env[fi.idx[p]] = args[i]
		}
	}
	for i, p := range fn.FreeVars {
		if i < len(bind) {
			fr.env[fi.idx[p]] = bind[i]
		}
	}
	defer func() {
		it.depth--
		it.curFn = it.curFn[:len(it.curFn)-1]
		if r := recover(); r != nil {
			gp, ok := r.(*goPanicVal)
			if !ok {
				panic(r)
			}
			// unwinding: run deferred calls; one of them may recover
			fr.panicV = gp
			it.panicking = append(it.panicking, fr)
			func() {
				defer func() { it.panicking = it.panicking[:len(it.panicking)-1] }()
				it.depth++
				it.curFn = append(it.curFn, fn)
				defer func() { it.depth--; it.curFn = it.curFn[:len(it.curFn)-1] }()
				it.runDefers(fr)
			}()
			if fr.panicV != nil {
				panic(fr.panicV)
			}
			// recovered
			if fn.Recover != nil {
				it.depth++
				it.curFn = append(it.curFn, fn)
				ret = it.runBlocks(fr, fn.Recover)
				it.depth--
				it.curFn = it.curFn[:len(it.curFn)-1]
			} else {
				ret = it.zeroResults(fn)
			}
		}
	}()
	return it.runBlocks(fr, fn.Blocks[0])
}

func (it *Interp) zeroResults(fn *ssa.Function) Val {
	res := fn.Signature.Results()
	switch res.Len() {
	case 0:
		return nil
	case 1:
		return it.zeroVal(res.At(0).Type())
	}
	t := make(Tuple, res.Len())
	for i := range t {
		t[i] = it.zeroVal(res.At(i).Type())
	}
	return t
}

func (it *Interp) runDefers(fr *frameState) {
	for len(fr.defers) > 0 {
		d := fr.defers[len(fr.defers)-1]
		fr.defers = fr.defers[:len(fr.defers)-1]
		it.callValue(d.fn, d.args, d.call)
	}
}

func (it *Interp) runBlocks(fr *frameState, start *ssa.BasicBlock) Val {
	block := start
	var prev *ssa.BasicBlock
	for {
		// loop bound: count visits of blocks that are targets of back edges (approximated by visit counts)
		if fr.visits == nil {
			fr.visits = map[*ssa.BasicBlock]int{}
		}
		fr.visits[block]++
		if fr.visits[block] > it.loopBound+1 {
			it.endPath(fmt.Sprintf("unwinding bound %d exceeded in %s", it.loopBound, fr.fn.String()), true)
		}
		var next *ssa.BasicBlock
		// phis first (parallel assignment)
		nphi := 0
		var phiVals []Val
		for _, ins := range block.Instrs {
			phi, ok := ins.(*ssa.Phi)
			if !ok {
				break
			}
			nphi++
			for i, p := range block.Preds {
				if p == prev {
					phiVals = append(phiVals, it.get(fr, phi.Edges[i]))
					break
				}
			}
		}
		if len(phiVals) == nphi {
			for i := 0; i < nphi; i++ {
				it.set(fr, block.Instrs[i].(*ssa.Phi), phiVals[i])
			}
		} else if nphi > 0 {
			it.engineBug("phi without matching predecessor")
		}
		for _, ins := range block.Instrs[nphi:] {
			it.steps++
			if it.steps > it.opt.MaxSteps {
				it.endPath(fmt.Sprintf("step budget %d exceeded", it.opt.MaxSteps), true)
			}
			if it.stepBudget > 0 && it.steps > it.stepBudget {
				it.stepBudget = 0
				it.violationNow("bounded-work", "the harness' step budget was exceeded in "+fr.fn.String()+" (work not proportional to the input)")
			}
			switch x := ins.(type) {
			case *ssa.If:
				c := it.get(fr, x.Cond).(Bool)
				taken := c.C
				if c.T != nil {
					taken = it.branch(c.T)
				}
				if taken {
					next = block.Succs[0]
				} else {
					next = block.Succs[1]
				}
			case *ssa.Jump:
				next = block.Succs[0]
			case *ssa.Return:
				var res Val
				switch len(x.Results) {
				case 0:
				case 1:
					res = it.get(fr, x.Results[0])
				default:
					t := make(Tuple, len(x.Results))
					for i, r := range x.Results {
						t[i] = it.get(fr, r)
					}
					res = t
				}
				return res
			case *ssa.Panic:
				v := it.get(fr, x.X)
				panic(&goPanicVal{v: v, msg: it.panicMessage(v)})
			default:
				it.exec(fr, ins)
			}
		}
		if next == nil {
			it.engineBug("block without terminator")
		}
		prev = block
		block = next
	}
}

func (it *Interp) panicMessage(v Val) string {
	if i, ok := v.(Iface); ok {
		switch x := i.V.(type) {
		case Str:
			if x.B == nil {
				return x.S
			}
			return "<string>"
		case *errObj:
			return x.msg
		}
		if i.T != nil {
			return "value of type " + i.T.String()
		}
	}
	return describe(v)
}

func pos(prog *ssa.Program, p token.Pos) string {
	if !p.IsValid() {
		return ""
	}
	ps := prog.Fset.Position(p)
	f := ps.Filename
	if i := strings.Index(f, "/repo/"); i >= 0 {
		f = f[i+6:]
	}
	return fmt.Sprintf("%s:%d", f, ps.Line)
}

func (it *Interp) exec(fr *frameState, ins ssa.Instruction) {
	switch x := ins.(type) {
	case *ssa.Alloc:
		o := it.allocType(derefType(x.Type()), "alloc "+x.Comment)
		it.set(fr, x, Ptr{Obj: o})
	case *ssa.BinOp:
		it.set(fr, x, it.binop(x.Op, it.get(fr, x.X), it.get(fr, x.Y), x.X.Type(), x.Y.Type(), x))
	case *ssa.UnOp:
		it.set(fr, x, it.unop(fr, x))
	case *ssa.Call:
		args := make([]Val, 0, len(x.Call.Args)+1)
		fnv, args := it.prepareCall(fr, &x.Call, args)
		r := it.callValue(fnv, args, &x.Call)
		it.set(fr, x, r)
	case *ssa.Defer:
		fnv, args := it.prepareCall(fr, &x.Call, nil)
		fr.defers = append(fr.defers, deferred{fn: fnv, args: args, call: &x.Call})
	case *ssa.RunDefers:
		it.runDefers(fr)
	case *ssa.Go:
		fnv, args := it.prepareCall(fr, &x.Call, nil)
		it.spawn(fnv, args, &x.Call)
	case *ssa.Store:
		p := it.get(fr, x.Addr).(Ptr)
		it.store(p, x.Val.Type(), it.get(fr, x.Val))
	case *ssa.FieldAddr:
		p := it.get(fr, x.X).(Ptr)
		if p.Obj == nil {
			it.goPanic("runtime error: invalid memory address or nil pointer dereference")
		}
		st := derefType(x.X.Type()).Underlying().(*types.Struct)
		it.set(fr, x, Ptr{Obj: p.Obj, Off: p.Off + it.fieldOffset(st, x.Field), Sym: p.Sym})
	case *ssa.Field:
		v := it.get(fr, x.X)
		st := x.X.Type().Underlying().(*types.Struct)
		it.set(fr, x, it.aggField(v, st, x.Field))
	case *ssa.IndexAddr:
		it.set(fr, x, it.indexAddr(fr, x))
	case *ssa.Index:
		it.set(fr, x, it.indexVal(fr, x))
	case *ssa.Slice:
		it.set(fr, x, it.sliceOp(fr, x))
	case *ssa.MakeSlice:
		elem := x.Type().Underlying().(*types.Slice).Elem()
		n := it.allocSize(it.get(fr, x.Len).(Int), isSigned(x.Len.Type()), "make at "+pos(it.prog, x.Pos()))
		c := it.allocSize(it.get(fr, x.Cap).(Int), isSigned(x.Cap.Type()), "make at "+pos(it.prog, x.Pos()))
		if c < n {
			it.goPanic("runtime error: makeslice: cap out of range")
		}
		o := it.allocArray(elem, c, "make at "+pos(it.prog, x.Pos()))
		it.set(fr, x, Slice{Obj: o, Len: n, Cap: c, ES: it.slotCount(elem)})
	case *ssa.MakeMap:
		mt := x.Type().Underlying().(*types.Map)
		it.nextObj++
		it.set(fr, x, &MapObj{ID: it.nextObj, KT: mt.Key(), VT: mt.Elem(), Base: it.initPhase})
	case *ssa.MapUpdate:
		m := it.get(fr, x.Map).(*MapObj)
		it.mapUpdate(m, it.get(fr, x.Key), it.get(fr, x.Value))
	case *ssa.Lookup:
		it.set(fr, x, it.lookup(fr, x))
	case *ssa.MakeInterface:
		it.set(fr, x, Iface{T: x.X.Type(), V: it.get(fr, x.X)})
	case *ssa.ChangeInterface:
		it.set(fr, x, it.get(fr, x.X))
	case *ssa.ChangeType:
		it.set(fr, x, it.get(fr, x.X))
	case *ssa.Convert:
		it.set(fr, x, it.convert(it.get(fr, x.X), x.X.Type(), x.Type()))
	case *ssa.MultiConvert:
		it.set(fr, x, it.convert(it.get(fr, x.X), x.X.Type(), x.Type()))
	case *ssa.TypeAssert:
		it.set(fr, x, it.typeAssert(fr, x))
	case *ssa.Extract:
		t := it.get(fr, x.Tuple).(Tuple)
		it.set(fr, x, t[x.Index])
	case *ssa.MakeClosure:
		b := make([]Val, len(x.Bindings))
		for i, bv := range x.Bindings {
			b[i] = it.get(fr, bv)
		}
		it.set(fr, x, Closure{Fn: x.Fn.(*ssa.Function), Bind: b})
	case *ssa.Range:
		it.set(fr, x, it.rangeInit(it.get(fr, x.X), x.X.Type()))
	case *ssa.Next:
		it.set(fr, x, it.rangeNext(it.get(fr, x.Iter).(*rangeIter), x))
	case *ssa.MakeChan:
		it.nextObj++
		n := it.get(fr, x.Size).(Int)
		it.set(fr, x, &ChanObj{ID: it.nextObj, Cap: int(n.C)})
	case *ssa.Send:
		it.chanSend(it.get(fr, x.Chan).(*ChanObj), it.get(fr, x.X))
	case *ssa.Select:
		it.set(fr, x, it.selectOp(fr, x))
	case *ssa.SliceToArrayPointer:
		s := it.get(fr, x.X).(Slice)
		n := int(derefType(x.Type()).Underlying().(*types.Array).Len())
		if s.Len < n {
			it.goPanic("runtime error: cannot convert slice to array pointer: length too short")
		}
		if s.Obj == nil {
			it.set(fr, x, Ptr{})
		} else {
			it.set(fr, x, Ptr{Obj: s.Obj, Off: s.Off})
		}
	case *ssa.DebugRef:
	default:
		it.unsupported(fmt.Sprintf("instruction %T", ins))
	}
}

func (it *Interp) aggField(v Val, st *types.Struct, idx int) Val {
	total := 0
	for i := 0; i < st.NumFields(); i++ {
		total += it.slotCount(st.Field(i).Type())
	}
	off := it.fieldOffset(st, idx)
	n := it.slotCount(st.Field(idx).Type())
	if total == 1 {
		if n == 1 {
			return v
		}
		return Agg{}
	}
	a := v.(Agg)
	if n == 1 {
		return a[off]
	}
	return Agg(append([]Val(nil), a[off:off+n]...))
}

// allocSize turns a (possibly symbolic) size into a concrete one, checking the allocation budget.
func (it *Interp) allocSize(n Int, signed bool, site string) int {
	// one label per allocating repository function, so that a recorded finding at one site does not hide another site
	allocLabel := "alloc-budget"
	for i := len(it.curFn) - 1; i >= 0; i-- {
		fn := it.curFn[i]
		if pk := it.pkgOf(fn); strings.HasPrefix(pk, "github.com/scigolib/hdf5") && !isVrt(pk) {
			name := fn.String()
			if j := strings.LastIndex(name, "/"); j >= 0 {
				name = name[j+1:]
			}
			allocLabel = "alloc-budget@" + name
			break
		}
	}
	if n.T == nil {
		v := sext(n.C, n.W)
		if !signed {
			v = int64(n.C)
		}
		if v < 0 {
			it.goPanic("runtime error: makeslice: len out of range")
		}
		if v > int64(it.maxAllocSlots) {
			it.violationNow(allocLabel, fmt.Sprintf("allocation of %d elements (%s)", v, site))
		}
		return int(v)
	}
	w := int(n.W)
	// negative size panics
	if signed {
		it.oblige(it.fromBTerm(it.ctx.Cmp("bvsge", n.T, it.ctx.BV(w, 0))), "alloc-nonneg", "alloc", "negative make size: "+site)
	}
	if w >= 64 || uint64(it.allocBudg) < uint64(1)<<uint(w) {
		// ask for a really large size first, so that the native replay of a counterexample fails for certain
		// (2^40 first; then 2^33, which is still above the address space limit of the isolated native replay)
		for _, sh := range []uint{40, 33} {
			huge := uint64(1) << sh
			if (w >= 64 || huge < uint64(1)<<uint(w)) && huge > uint64(it.allocBudg) && it.label(allocLabel, "alloc").Cex == nil {
				it.sol.SyncPC(it.pc)
				if r := it.sol.CheckWith(it.ctx.Cmp("bvugt", n.T, it.ctx.BV(w, huge))); r == sym.Sat {
					ls := it.label(allocLabel, "alloc")
					ls.Checked++
					ls.Cex = &Cex{Label: allocLabel, Kind: "alloc", Detail: fmt.Sprintf("allocation size governed by unchecked input can exceed 2^%d elements (%s)", sh, site), Vector: it.modelVector(), Where: it.where(), PathNo: it.pathNo}
				}
				it.sol.ReleaseModel()
			}
		}
		it.oblige(it.fromBTerm(it.ctx.Cmp("bvule", n.T, it.ctx.BV(w, uint64(it.allocBudg)))), allocLabel, "alloc",
			fmt.Sprintf("allocation size governed by unchecked input can exceed %d elements (%s)", it.allocBudg, site))
	}
	v := it.concretize(n, 40, "allocation size ("+site+")")
	if v > 1<<22 {
		// within the harness' budget but larger than the engine wants to model: the path is not followed further
		if it.sizeSampling {
			it.res.Bounds["allocations_above_4Mi_elements_not_followed"] = 1
			it.endPath("allocation larger than the engine models", false)
		}
	}
	return int(v)
}

func (it *Interp) indexAddr(fr *frameState, x *ssa.IndexAddr) Val {
	base := it.get(fr, x.X)
	idx := it.get(fr, x.Index).(Int)
	idx = it.widenIndex(idx, x.Index.Type())
	var obj *Object
	var off, n, es int
	switch b := base.(type) {
	case Slice:
		obj, off, n, es = b.Obj, b.Off, b.Len, b.ES
	case Ptr: // pointer to array
		if b.Obj == nil {
			it.goPanic("runtime error: invalid memory address or nil pointer dereference")
		}
		at := derefType(x.X.Type()).Underlying().(*types.Array)
		obj, off, n, es = b.Obj, b.Off, int(at.Len()), it.slotCount(at.Elem())
		if b.Sym != nil {
			it.unsupported("nested symbolic index")
		}
	default:
		it.engineBug("IndexAddr on " + describe(base))
	}
	if idx.T == nil {
		i := int64(idx.C)
		if i < 0 || i >= int64(n) {
			it.goPanic(fmt.Sprintf("runtime error: index out of range [%d] with length %d", i, n))
		}
		return Ptr{Obj: obj, Off: off + int(i)*es}
	}
	it.boundsCheck(idx, n, x.Pos())
	if n == 1 {
		return Ptr{Obj: obj, Off: off}
	}
	return Ptr{Obj: obj, Off: off, Sym: &SymIdx{Idx: idx.T, Stride: es, N: n}}
}

// widenIndex converts an index value to a 64-bit value according to its type.
func (it *Interp) widenIndex(idx Int, t types.Type) Int {
	if idx.W == 64 {
		return idx
	}
	if idx.T == nil {
		if isSigned(t) {
			return CInt(64, uint64(sext(idx.C, idx.W)))
		}
		return CInt(64, idx.C)
	}
	if isSigned(t) {
		return it.fromTerm(it.ctx.SExt(64-int(idx.W), idx.T))
	}
	return it.fromTerm(it.ctx.ZExt(64-int(idx.W), idx.T))
}

func (it *Interp) boundsCheck(idx Int, n int, p token.Pos) {
	// unsigned compare covers negative values too
	ok := it.ctx.Cmp("bvult", idx.T, it.ctx.BV(64, uint64(n)))
	lab := "index-in-range"
	it.oblige(it.fromBTerm(ok), lab, "oob", fmt.Sprintf("index out of range (length %d) at %s", n, pos(it.prog, p)))
}

func (it *Interp) indexVal(fr *frameState, x *ssa.Index) Val {
	base := it.get(fr, x.X)
	idx := it.widenIndex(it.get(fr, x.Index).(Int), x.Index.Type())
	switch b := base.(type) {
	case Str:
		n := b.Len()
		if idx.T == nil {
			if idx.C >= uint64(n) {
				it.goPanic(fmt.Sprintf("runtime error: index out of range [%d] with length %d", int64(idx.C), n))
			}
			return b.At(int(idx.C))
		}
		it.boundsCheck(idx, n, x.Pos())
		if n > iteLimit*3 {
			v := it.concretize(idx, 16, "symbolic index into a long string")
			return b.At(int(v))
		}
		var acc Val
		for i := n - 1; i >= 0; i-- {
			if acc == nil {
				acc = b.At(i)
				continue
			}
			acc = it.iteVal(it.ctx.Eq(idx.T, it.ctx.BV(64, uint64(i))), b.At(i), acc)
		}
		return acc
	default:
		// array value
		at, ok := x.X.Type().Underlying().(*types.Array)
		if !ok {
			it.unsupported("Index on " + x.X.Type().String())
		}
		es := it.slotCount(at.Elem())
		n := int(at.Len())
		var a Agg
		if n*es == 1 {
			a = Agg{base}
		} else {
			a = base.(Agg)
		}
		if idx.T == nil {
			if idx.C >= uint64(n) {
				it.goPanic("runtime error: index out of range")
			}
			if es == 1 {
				return a[idx.C]
			}
			return Agg(append([]Val(nil), a[int(idx.C)*es:(int(idx.C)+1)*es]...))
		}
		it.boundsCheck(idx, n, x.Pos())
		if es != 1 {
			v := it.concretize(idx, 16, "symbolic index into array of aggregates")
			return Agg(append([]Val(nil), a[int(v)*es:(int(v)+1)*es]...))
		}
		var acc Val
		for i := n - 1; i >= 0; i-- {
			if acc == nil {
				acc = a[i]
				continue
			}
			acc = it.iteVal(it.ctx.Eq(idx.T, it.ctx.BV(64, uint64(i))), a[i], acc)
		}
		return acc
	}
}

func (it *Interp) sliceBound(fr *frameState, v ssa.Value, def int) Int {
	if v == nil {
		return CInt(64, uint64(def))
	}
	return it.widenIndex(it.get(fr, v).(Int), v.Type())
}

func (it *Interp) sliceOp(fr *frameState, x *ssa.Slice) Val {
	base := it.get(fr, x.X)
	var obj *Object
	var off, ln, cp, es int
	isStr := false
	var str Str
	switch b := base.(type) {
	case Slice:
		obj, off, ln, cp, es = b.Obj, b.Off, b.Len, b.Cap, b.ES
	case Str:
		isStr = true
		str = b
		ln, cp = b.Len(), b.Len()
	case Ptr:
		if b.Obj == nil {
			it.goPanic("runtime error: invalid memory address or nil pointer dereference")
		}
		at := derefType(x.X.Type()).Underlying().(*types.Array)
		obj, off, ln, cp, es = b.Obj, b.Off, int(at.Len()), int(at.Len()), it.slotCount(at.Elem())
		if eb, ok := at.Elem().Underlying().(*types.Basic); ok && eb.Kind() == types.Uint8 && ln > 1 && off < len(obj.Slots) {
			// (*[N]byte)(unsafe.Pointer(&x))[:] over a scalar slot: materialise the little-endian bytes (read-only view)
			if iv, ok := obj.Slots[off].(Int); ok && int(iv.W) == 8*ln {
				vals := make([]Val, ln)
				for k := 0; k < ln; k++ {
					if iv.T == nil {
						vals[k] = CInt(8, iv.C>>(8*uint(k)))
					} else {
						vals[k] = it.fromTerm(it.ctx.Extract(8*k+7, 8*k, iv.T))
					}
				}
				nb := it.bytesToSlice(vals, "unsafe byte view")
				obj, off = nb.Obj, 0
			}
		}
	default:
		it.engineBug("Slice on " + describe(base))
	}
	lo := it.sliceBound(fr, x.Low, 0)
	hi := it.sliceBound(fr, x.High, ln)
	mx := it.sliceBound(fr, x.Max, cp)
	limit := cp
	if isStr {
		limit = ln
	}
	if lo.T != nil || hi.T != nil || mx.T != nil {
		// obligation: 0 <= lo <= hi <= max <= cap
		c := it.ctx
		cond := c.And(c.Cmp("bvule", it.term(lo), it.term(hi)), c.And(c.Cmp("bvule", it.term(hi), it.term(mx)), c.Cmp("bvule", it.term(mx), c.BV(64, uint64(limit)))))
		it.oblige(it.fromBTerm(cond), "slice-in-range", "oob", fmt.Sprintf("slice bounds out of range (cap %d) at %s", limit, pos(it.prog, x.Pos())))
		lo = CInt(64, it.concretize(lo, 48, "slice low bound"))
		hi = CInt(64, it.concretize(hi, 48, "slice high bound"))
		mx = CInt(64, it.concretize(mx, 48, "slice max bound"))
	}
	l, h, m := int64(lo.C), int64(hi.C), int64(mx.C)
	if l < 0 || h < l || m < h || m > int64(limit) {
		it.goPanic(fmt.Sprintf("runtime error: slice bounds out of range [%d:%d] with capacity %d", l, h, limit))
	}
	if isStr {
		if str.B != nil {
			return normStr(Str{B: str.B[l:h]})
		}
		return Str{S: str.S[l:h]}
	}
	if obj == nil {
		return Slice{ES: es}
	}
	return Slice{Obj: obj, Off: off + int(l)*es, Len: int(h - l), Cap: int(m - l), ES: es}
}

func (it *Interp) typeAssert(fr *frameState, x *ssa.TypeAssert) Val {
	v := it.get(fr, x.X).(Iface)
	ok := false
	if v.T != nil {
		if types.IsInterface(x.AssertedType) {
			ok = it.implements(v.T, x.AssertedType.Underlying().(*types.Interface))
		} else {
			ok = types.Identical(v.T, x.AssertedType)
		}
	}
	var res Val
	if ok {
		if types.IsInterface(x.AssertedType) {
			res = v
		} else {
			res = v.V
		}
	} else {
		res = it.zeroVal(x.AssertedType)
	}
	if x.CommaOk {
		return Tuple{res, Bool{C: ok}}
	}
	if !ok {
		dyn := "nil"
		if v.T != nil {
			dyn = v.T.String()
		}
		it.goPanic(fmt.Sprintf("interface conversion: interface is %s, not %s", dyn, x.AssertedType.String()))
	}
	return res
}

func (it *Interp) implements(t types.Type, iface *types.Interface) bool {
	if _, isErr := t.(*errType); isErr {
		// engine error objects implement error (and nothing else)
		return iface.NumMethods() == 1 && iface.Method(0).Name() == "Error"
	}
	if _, isOp := t.(*opaqueType); isOp {
		return it.opaqueImplements(t.(*opaqueType), iface)
	}
	return types.Implements(t, iface)
}

// prepareCall evaluates the callee and arguments of a call.
func (it *Interp) prepareCall(fr *frameState, c *ssa.CallCommon, args []Val) (Val, []Val) {
	if c.IsInvoke() {
		recv := it.get(fr, c.Value)
		args = append(args, recv)
		for _, a := range c.Args {
			args = append(args, it.get(fr, a))
		}
		return nil, args
	}
	fnv := it.get(fr, c.Value)
	for _, a := range c.Args {
		args = append(args, it.get(fr, a))
	}
	return fnv, args
}

// callValue calls a function value (or an interface method when fnv == nil).
func (it *Interp) callValue(fnv Val, args []Val, c *ssa.CallCommon) Val {
	if fnv == nil && c != nil && c.IsInvoke() {
		recv, ok := args[0].(Iface)
		if !ok {
			it.engineBug("invoke on non-interface " + describe(args[0]))
		}
		if recv.T == nil {
			it.goPanic("runtime error: invalid memory address or nil pointer dereference")
		}
		if r, handled := it.invokeIntrinsic(recv, c.Method, args[1:]); handled {
			return r
		}
		ms := it.prog.MethodSets.MethodSet(recv.T)
		sel := ms.Lookup(c.Method.Pkg(), c.Method.Name())
		if sel == nil {
			it.engineBug("method " + c.Method.Name() + " not found on " + recv.T.String())
		}
		fn := it.prog.MethodValue(sel)
		if fn == nil {
			it.unsupported("abstract method " + c.Method.Name())
		}
		args[0] = recv.V
		return it.callFn(fn, args, c)
	}
	cl, ok := fnv.(Closure)
	if !ok {
		it.engineBug("call of non-function " + describe(fnv))
	}
	if cl.Builtin == "engine:cancel" {
		it.ctxCancel(cl.Bind[0].(*Opaque).V.(*ctxState))
		return nil
	}
	if cl.Builtin != "" {
		return it.builtin(cl.Builtin, args, c)
	}
	if cl.Fn == nil {
		it.goPanic("runtime error: invalid memory address or nil pointer dereference")
	}
	if len(cl.Bind) > 0 {
		return it.callClosure(cl, args, c)
	}
	return it.callFn(cl.Fn, args, c)
}

func (it *Interp) callClosure(cl Closure, args []Val, c *ssa.CallCommon) Val {
	fn := cl.Fn
	if r, handled := it.intrinsic(fn, args, c); handled {
		return r
	}
	if fn.Blocks == nil {
		it.unsupported("closure without body " + fn.String())
	}
	// bind free variables: executed through a frame whose freevars are preset
	return it.callWithFree(fn, args, cl.Bind)
}

func (it *Interp) callWithFree(fn *ssa.Function, args []Val, bind []Val) (ret Val) {
	return it.callFunctionB(fn, args, bind)
}

func (it *Interp) callFn(fn *ssa.Function, args []Val, c *ssa.CallCommon) Val {
	if r, handled := it.intrinsic(fn, args, c); handled {
		return r
	}
	return it.callFunction2(fn, args)
}
