package interp

import (
	"fmt"
	"go/types"
	"os"
	"sort"
	"strings"
	"time"

	"golang.org/x/tools/go/ssa"

	"verif/engine/sym"
)

// Options of one harness run.
type Options struct {
	Thorough     bool
	Backend      string
	TimeoutMs    int
	MaxPaths     int
	MaxSteps     int    // per path
	PkgDir       string // directory of the harness package in the repository (corpus files)
	LoopBound    int    // default per-loop-header visit cap
	SamplePaths  int    // paths whose model is kept for native validation
	Deadline     time.Time
	KnownLabels  map[string]bool // labels (harness/label) listed as open known findings
	Debug        bool
	TraceThreads bool
	Sched        bool // schedule mode: simulated threads with blocking semantics (implies TraceThreads)
}

// Counterexample for one obligation label.
type Cex struct {
	Label   string
	Kind    string // assert | panic | oob | nil | div | alloc | ...
	Detail  string
	Vector  []uint64
	Where   string
	PathNo  int
	Outcome string // expected native outcome
}

// PathSample is a completed path with a model, for translator validation.
type PathSample struct {
	Vector  []uint64
	Outcome string
	Obs     []string
}

type LabelStat struct {
	Label      string
	Kind       string
	Checked    int // solver-decided obligations
	Folded     int // decided by constant folding
	Discharged int
	Unknown    int
	Cex        *Cex
	SampleSMT  string
}

type Result struct {
	Harness        string
	Paths          int
	CompletedPaths int
	AssumeEnded    int
	Decisions      int
	Forks          int
	PinLearned     int // inputs fixed through a solver query after a concretisation
	PinDecided     int // branch alternatives decided by evaluation under inputs fixed by equalities of the path condition
	Steps          int64
	Labels         map[string]*LabelStat
	Incomplete     []string // reasons the exploration is not exhaustive within the harness bounds
	Unsupported    []string
	Functions      map[string]bool
	Stubs          map[string]bool
	Samples        []PathSample
	Queries        int
	QSat           int
	QUnsat         int
	QUnknown       int
	SolverTime     time.Duration
	Wall           time.Duration
	Covered        map[string]bool
	WantCovered    map[string]bool
	Bounds         map[string]int
	Events         []*ThreadTrace
}

type decision struct {
	feasible []int
	idx      int
	learned  [][]learnedPin // per alternative of a concretisation: inputs the solver showed to be forced (nil = not asked yet)
}

type learnedPin struct {
	id int
	v  uint64
}

type pathEnd struct {
	reason     string
	incomplete bool
	assume     bool
}

type goPanicVal struct {
	v   Val
	msg string
}

type engineBugVal struct{ msg string }

type Interp struct {
	prog *ssa.Program
	ctx  *sym.Ctx
	sol  *sym.Solver
	opt  Options
	res  *Result

	slotCache map[types.Type]int
	finfo     map[*ssa.Function]*funcInfo
	globals   map[*ssa.Global]*Object
	initDone  map[*ssa.Package]bool
	initPhase bool
	journal   []undo

	nextObj       int
	allocSlots    int
	maxAllocSlots int

	// per path
	pc           []*sym.Term
	decisions    []decision
	dpos         int
	nInputs      int
	inputs       []*sym.Term
	steps        int
	loopBound    int
	allocBudg    int
	obs          []obsRec
	depth        int
	panicking    []*frameState
	pathNo       int
	files        map[string]*memFile
	clock        *sym.Term
	nClock       int
	errSeq       int
	tracer       *tracer
	pins         map[int]uint64
	sched        *scheduler
	curFn        []*ssa.Function
	afterCex     bool
	poolDirty    int
	initObjs     int
	labelsSeen   map[string]bool
	inInit       *ssa.Package
	stepBudget   int
	sizeSampling bool
	log2Exp      map[int]Int
	InitNotes    []string
	pendingBind  []Val
}

type obsRec struct {
	name string
	t    *sym.Term
	bs   []*sym.Term
}

func New(prog *ssa.Program, opt Options) (*Interp, error) {
	it := &Interp{prog: prog, opt: opt, ctx: sym.NewCtx()}
	it.slotCache = map[types.Type]int{}
	it.finfo = map[*ssa.Function]*funcInfo{}
	it.globals = map[*ssa.Global]*Object{}
	it.initDone = map[*ssa.Package]bool{}
	it.maxAllocSlots = 64 << 20
	if it.opt.Backend == "" {
		it.opt.Backend = "z3"
	}
	if it.opt.TimeoutMs == 0 {
		it.opt.TimeoutMs = 10000
		if it.opt.Thorough {
			it.opt.TimeoutMs = 60000 // per solver query
		}
		if s := os.Getenv("VERIF_QUERY_MS"); s != "" {
			fmt.Sscan(s, &it.opt.TimeoutMs)
		}
	}
	if it.opt.MaxSteps == 0 {
		it.opt.MaxSteps = 4000000
		if it.opt.Thorough {
			it.opt.MaxSteps = 40000000
		}
	}
	if it.opt.LoopBound == 0 {
		it.opt.LoopBound = 300
	}
	if it.opt.MaxPaths == 0 {
		it.opt.MaxPaths = 20000
		if it.opt.Thorough {
			it.opt.MaxPaths = 200000
		}
	}
	s, err := sym.NewSolver(it.opt.Backend, it.ctx, it.opt.TimeoutMs)
	if err != nil {
		return nil, err
	}
	it.sol = s
	if os.Getenv("VERIF_SMTLOG") != "" {
		f, _ := os.Create(os.Getenv("VERIF_SMTLOG"))
		s.Log = f
	}
	return it, nil
}

func (it *Interp) Close() { it.sol.Close() }

func (it *Interp) unsupported(what string) {
	where := ""
	if n := len(it.curFn); n > 0 {
		where = " in " + it.curFn[n-1].String()
	}
	panic(&pathEnd{reason: "unsupported: " + what + where, incomplete: true})
}

func (it *Interp) engineBug(msg string) {
	where := ""
	if n := len(it.curFn); n > 0 {
		where = " in " + it.curFn[n-1].String()
	}
	panic(&engineBugVal{msg + where})
}

func (it *Interp) endPath(reason string, incomplete bool) {
	panic(&pathEnd{reason: reason, incomplete: incomplete})
}

func (it *Interp) goPanic(msg string) {
	panic(&goPanicVal{v: Iface{T: types.Typ[types.String], V: Str{S: msg}}, msg: msg})
}

func (it *Interp) addPC(t *sym.Term) {
	if t.IsTrue() {
		return
	}
	it.pc = append(it.pc, t)
	it.derivePins(t)
}

// derivePins: an equality between an invertible expression of one input and a constant (added by a concretisation
// or a taken branch) fixes that input on this path; conditions over fixed inputs are then decided by evaluation
// instead of a solver call.
func (it *Interp) derivePins(t *sym.Term) {
	if t.Op != "=" || len(t.Args) != 2 {
		return
	}
	a, b := t.Args[0], t.Args[1]
	if a.IsConst {
		a, b = b, a
	}
	if !b.IsConst || a.Sort.K != sym.KBV || a.Sort.W > 64 || a.Sort.W <= 0 {
		return
	}
	it.pinBits(a, b.C)
}

func (it *Interp) pinBits(x *sym.Term, v uint64) {
	w := x.Sort.W
	if w <= 0 || w > 64 {
		return
	}
	if w < 64 {
		v &= (uint64(1) << uint(w)) - 1
	}
	if it.pins == nil {
		it.pins = map[int]uint64{}
	}
	// the term itself is fixed (whatever it is built from); invertible operators pass the value on to their operand
	it.pins[x.ID] = v
	switch x.Op {
	case "zext":
		it.pinBits(x.Args[0], v)
	case "concat":
		lo := x.Args[1]
		if lo.Sort.W > 0 && lo.Sort.W < 64 {
			it.pinBits(lo, v)
			it.pinBits(x.Args[0], v>>uint(lo.Sort.W))
		}
	case "bvadd":
		if x.Args[0].IsConst {
			it.pinBits(x.Args[1], v-x.Args[0].C)
		} else if x.Args[1].IsConst {
			it.pinBits(x.Args[0], v-x.Args[1].C)
		}
	}
}

// branch decides a symbolic condition on this path: returns which side is taken.
func (it *Interp) branch(cond *sym.Term) bool {
	if cond.IsConst {
		return cond.C == 1
	}
	k := it.choose([]*sym.Term{cond, it.ctx.Not(cond)}, true)
	return k == 0
}

// choose picks one of the alternatives; the others that are feasible are explored on later paths.
func (it *Interp) choose(conds []*sym.Term, complementary bool) int {
	if len(it.pins) > 0 {
		// every alternative evaluates under the terms fixed by the path condition: the outcome is implied by the path
		// condition (like a constant fold) — no decision is recorded and nothing is added to the path condition
		first, all := -1, true
		for i, c := range conds {
			v, ok := it.ctx.Eval(c, it.pins, it.pins)
			if !ok {
				all = false
				break
			}
			if v == 1 && first < 0 {
				first = i
			}
		}
		if all && first >= 0 {
			it.res.PinDecided++
			return first
		}
	}
	if it.dpos < len(it.decisions) {
		d := it.decisions[it.dpos]
		it.dpos++
		alt := d.feasible[d.idx]
		it.addPC(conds[alt])
		return alt
	}
	it.checkDeadline()
	synced := false
	var feas []int
	for i, c := range conds {
		if c.IsFalse() {
			continue
		}
		if c.IsTrue() {
			feas = append(feas, i)
			continue
		}
		if len(it.pins) > 0 {
			if v, ok := it.ctx.Eval(c, it.pins, it.pins); ok {
				// every input the condition depends on is fixed on this path
				if v == 1 {
					feas = append(feas, i)
				}
				it.res.PinDecided++
				continue
			}
		}
		if !synced {
			it.sol.SyncPC(it.pc)
			synced = true
		}
		if complementary && len(conds) == 2 && i == 1 && len(feas) == 0 {
			// the first side is infeasible and the path condition is feasible: the other side must be
			feas = append(feas, i)
			continue
		}
		r := it.sol.CheckWith(c)
		it.sol.ReleaseModel()
		if r != sym.Unsat {
			feas = append(feas, i)
		}
	}
	if len(feas) == 0 {
		it.endPath("no feasible alternative", false)
	}
	if len(feas) > 1 {
		it.res.Forks++
	}
	it.res.Decisions++
	it.decisions = append(it.decisions, decision{feasible: feas})
	it.dpos++
	it.addPC(conds[feas[0]])
	return feas[0]
}

// concretize forks over the feasible values of a symbolic integer (at most max).
func (it *Interp) concretize(v Int, max int, why string) uint64 {
	if v.T == nil {
		return v.C
	}
	w := int(v.W)
	if len(it.pins) > 0 {
		// fixed by equalities of the path condition: the value is unique, no enumeration needed
		// (values derived from the fixed terms stay valid for the rest of the path: the pin table doubles as memo)
		if x, ok := it.ctx.Eval(v.T, it.pins, it.pins); ok {
			it.res.PinDecided++
			return x
		}
	}
	if it.dpos < len(it.decisions) {
		di := it.dpos
		d := it.decisions[di]
		it.dpos++
		val := uint64(d.feasible[d.idx])
		it.addPC(it.ctx.Eq(v.T, it.ctx.BV(w, val)))
		it.learnPins(di, d.idx, v.T)
		return val
	}
	// enumerate values with the solver
	it.sol.SyncPC(it.pc)
	var vals []int
	excl := it.ctx.True()
	complete := false
	for len(vals) < max {
		r := it.sol.CheckWith(excl)
		if r == sym.Unsat {
			complete = true
			break
		}
		if r == sym.Unknown {
			break
		}
		m, err := it.sol.Values([]*sym.Term{v.T})
		it.sol.ReleaseModel()
		if err != nil {
			break
		}
		x := m[v.T.ID]
		vals = append(vals, int(x))
		excl = it.ctx.And(excl, it.ctx.Not(it.ctx.Eq(v.T, it.ctx.BV(w, x))))
	}
	if !complete {
		// one more check to see whether enumeration is complete
		r := it.sol.CheckWith(excl)
		it.sol.ReleaseModel()
		if r == sym.Unsat {
			complete = true
		}
	}
	if !complete {
		// the domain is sampled: make sure the three smallest feasible values are among the samples (small counts
		// and sizes are the ones for which a structure fits into a small image, so that its loops and recursions
		// are entered); each is found by bisection on an upper bound
		if it.sizeSampling && len(vals) > 8 {
			vals = vals[:8] // a sampled domain: 8 values as the solver returned them, plus the 3 smallest
		}
		have := map[int]bool{}
		for _, x := range vals {
			have[x] = true
		}
		lower := it.ctx.True()
		for k := 0; k < 3; k++ {
			m, ok := it.minFeasible(v.T, w, lower)
			if !ok {
				break
			}
			if !have[int(m)] {
				have[int(m)] = true
				vals = append(vals, int(m))
			}
			lower = it.ctx.Cmp("bvugt", v.T, it.ctx.BV(w, m))
		}
		if it.sizeSampling {
			it.res.Bounds["size_fields_sampled_at_most"] = 8 + 3
		} else {
			it.noteIncomplete(fmt.Sprintf("concretisation of %s kept %d values, more are feasible", why, len(vals)))
		}
	}
	if len(vals) == 0 {
		it.endPath("no feasible value for "+why, false)
	}
	sort.Ints(vals)
	if len(vals) > 1 {
		it.res.Forks++
	}
	it.res.Decisions++
	it.decisions = append(it.decisions, decision{feasible: vals})
	it.dpos++
	it.addPC(it.ctx.Eq(v.T, it.ctx.BV(w, uint64(vals[0]))))
	it.learnPins(len(it.decisions)-1, 0, v.T)
	return uint64(vals[0])
}

// minFeasible returns the smallest value of t (unsigned) that satisfies the path condition and extra.
func (it *Interp) minFeasible(t *sym.Term, w int, extra *sym.Term) (uint64, bool) {
	value := func(c *sym.Term) (uint64, bool) {
		if it.sol.CheckWith(c) != sym.Sat {
			it.sol.ReleaseModel()
			return 0, false
		}
		m, err := it.sol.Values([]*sym.Term{t})
		it.sol.ReleaseModel()
		if err != nil {
			return 0, false
		}
		return m[t.ID], true
	}
	hi, ok := value(extra)
	if !ok {
		return 0, false
	}
	lo := uint64(0)
	for lo < hi {
		mid := lo + (hi-lo)/2
		if x, ok := value(it.ctx.And(extra, it.ctx.Cmp("bvule", t, it.ctx.BV(w, mid)))); ok {
			hi = x
		} else {
			lo = mid + 1
		}
	}
	return hi, true
}

// learnPins: after a term has been fixed to one of its values, the (few) inputs it is built from are often forced as
// well, although the term is not invertible syntactically (ite, shifts, masks). The solver is asked once per
// alternative of the concretisation (the answer is kept in the decision record and re-applied on replays): an input
// whose model value cannot be changed is fixed for the rest of the path, and every later condition over fixed inputs
// is decided by evaluation.
func (it *Interp) learnPins(di, alt int, t *sym.Term) {
	d := &it.decisions[di]
	if d.learned == nil {
		d.learned = make([][]learnedPin, len(d.feasible))
	}
	if alt >= len(d.learned) {
		return
	}
	if d.learned[alt] == nil {
		d.learned[alt] = []learnedPin{}
		vars := inputVars(t, 4)
		var todo []*sym.Term
		for _, x := range vars {
			if _, ok := it.pins[x.ID]; !ok {
				todo = append(todo, x)
			}
		}
		if len(todo) > 0 {
			it.sol.SyncPC(it.pc)
			if it.sol.CheckWith(it.ctx.True()) == sym.Sat {
				m, err := it.sol.Values(todo)
				it.sol.ReleaseModel()
				if err == nil {
					for _, x := range todo {
						mv := m[x.ID]
						r := it.sol.CheckWith(it.ctx.Not(it.ctx.Eq(x, it.ctx.BV(x.Sort.W, mv))))
						it.sol.ReleaseModel()
						if r == sym.Unsat {
							d.learned[alt] = append(d.learned[alt], learnedPin{x.ID, mv})
						}
					}
				}
			} else {
				it.sol.ReleaseModel()
			}
		}
	}
	for _, lp := range d.learned[alt] {
		if it.pins == nil {
			it.pins = map[int]uint64{}
		}
		it.pins[lp.id] = lp.v
		it.res.PinLearned++
	}
}

// inputVars returns the input variables a term is built from, or nil when there are more than max of them.
func inputVars(t *sym.Term, max int) []*sym.Term {
	seen := map[int]bool{}
	var out []*sym.Term
	var walk func(*sym.Term) bool
	walk = func(x *sym.Term) bool {
		if seen[x.ID] {
			return true
		}
		seen[x.ID] = true
		if x.Op == "var" {
			if x.Sort.K != sym.KBV || x.Sort.W <= 0 || x.Sort.W > 64 {
				return false
			}
			out = append(out, x)
			return len(out) <= max
		}
		for _, a := range x.Args {
			if !walk(a) {
				return false
			}
		}
		return true
	}
	if !walk(t) {
		return nil
	}
	return out
}

func (it *Interp) checkDeadline() {
	if !it.opt.Deadline.IsZero() && time.Now().After(it.opt.Deadline) {
		it.endPath("time budget exhausted", true)
	}
}

func (it *Interp) noteIncomplete(why string) {
	for _, s := range it.res.Incomplete {
		if s == why {
			return
		}
	}
	if len(it.res.Incomplete) < 50 {
		it.res.Incomplete = append(it.res.Incomplete, why)
	}
}

func (it *Interp) label(label, kind string) *LabelStat {
	ls := it.res.Labels[label]
	if ls == nil {
		ls = &LabelStat{Label: label, Kind: kind}
		it.res.Labels[label] = ls
	}
	return ls
}

func (it *Interp) where() string {
	if n := len(it.curFn); n > 0 {
		return it.curFn[n-1].String()
	}
	return ""
}

// modelVector reads the input vector from the solver's current model.
func (it *Interp) modelVector() []uint64 {
	m, err := it.sol.Values(it.inputs)
	vec := make([]uint64, len(it.inputs))
	if err != nil {
		return vec
	}
	for i, v := range it.inputs {
		vec[i] = m[v.ID]
	}
	return vec
}

// oblige checks an obligation cond on the current path. On return the path continues under cond.
func (it *Interp) oblige(cond Bool, label, kind, detail string) {
	ls := it.label(label, kind)
	if cond.T == nil {
		if cond.C {
			ls.Folded++
			return
		}
		// definitely violated on this (feasible) path
		if ls.Cex == nil {
			it.sol.SyncPC(it.pc)
			r := it.sol.CheckWith(it.ctx.True())
			if r == sym.Sat {
				ls.Cex = &Cex{Label: label, Kind: kind, Detail: detail, Vector: it.modelVector(), Where: it.where(), PathNo: it.pathNo}
			} else if r == sym.Unknown {
				ls.Unknown++
			}
			it.sol.ReleaseModel()
			if r == sym.Unsat {
				it.endPath("path condition infeasible", false)
			}
		}
		it.endPath("violated: "+label, false)
	}
	if ls.Cex != nil {
		// already have a counterexample for this label: just continue under cond
		it.assumeAfter(cond.T)
		return
	}
	it.checkDeadline()
	it.sol.SyncPC(it.pc)
	neg := it.ctx.Not(cond.T)
	r := it.sol.CheckWith(neg)
	ls.Checked++
	if ls.SampleSMT == "" {
		ls.SampleSMT = fmt.Sprintf("pc[%d conjuncts] ∧ ¬t%d (term size %d) -> %s", len(it.pc), cond.T.ID, cond.T.Size(), r)
	}
	switch r {
	case sym.Unsat:
		ls.Discharged++
		return
	case sym.Sat:
		ls.Cex = &Cex{Label: label, Kind: kind, Detail: detail, Vector: it.modelVector(), Where: it.where(), PathNo: it.pathNo}
		it.sol.ReleaseModel()
		it.assumeAfter(cond.T)
	default:
		it.sol.ReleaseModel()
		ls.Unknown++
		it.addPC(cond.T)
	}
}

func (it *Interp) assumeAfter(c *sym.Term) {
	it.sol.SyncPC(it.pc)
	r := it.sol.CheckWith(c)
	it.sol.ReleaseModel()
	if r == sym.Unsat {
		it.endPath("obligation cannot hold on this path", false)
	}
	it.addPC(c)
}

// violationNow reports a definite violation on the current path.
func (it *Interp) violationNow(label, detail string) {
	it.oblige(Bool{C: false}, label, "engine", detail)
}

func (it *Interp) newInput() *sym.Term {
	v := it.ctx.Var(fmt.Sprintf("in%d", it.nInputs), sym.BVSort(64))
	it.nInputs++
	it.inputs = append(it.inputs, v)
	return v
}

func (it *Interp) inputInt(w uint8) Int {
	v := it.newInput()
	return it.fromTerm(it.ctx.Extract(int(w)-1, 0, v))
}

// RunHarness explores all paths of fn.
func (it *Interp) RunHarness(fn *ssa.Function) (res *Result) {
	t0 := time.Now()
	it.res = &Result{Harness: fn.Name(), Labels: map[string]*LabelStat{}, Functions: map[string]bool{}, Stubs: map[string]bool{},
		Covered: map[string]bool{}, WantCovered: map[string]bool{}, Bounds: map[string]int{}}
	res = it.res
	defer func() {
		res.Wall = time.Since(t0)
		res.Queries = it.sol.Queries
		res.QSat, res.QUnsat, res.QUnknown = it.sol.NSat, it.sol.NUnsat, it.sol.NUnknown
		res.SolverTime = it.sol.TimeSpent
	}()
	it.collectStatic(fn)
	// package initialisation (concrete)
	if err := it.runInits(fn); err != nil {
		res.Unsupported = append(res.Unsupported, "init: "+err.Error())
		return
	}
	it.decisions = nil
	for {
		it.pathNo++
		res.Paths++
		end := it.runPath(fn)
		if end != nil && end.incomplete {
			if strings.HasPrefix(end.reason, "unsupported") {
				found := false
				for _, u := range res.Unsupported {
					if u == end.reason {
						found = true
					}
				}
				if !found && len(res.Unsupported) < 30 {
					res.Unsupported = append(res.Unsupported, end.reason)
				}
			} else {
				it.noteIncomplete(end.reason)
			}
		}
		if end != nil && end.assume {
			res.AssumeEnded++
		}
		if it.opt.Debug {
			r := "completed"
			if end != nil {
				r = end.reason
			}
			fmt.Fprintf(os.Stderr, "[%s] path %d: %s (pc %d, steps %d)\n", fn.Name(), it.pathNo, r, len(it.pc), it.steps)
		}
		// backtrack
		for len(it.decisions) > 0 {
			d := &it.decisions[len(it.decisions)-1]
			if d.idx+1 < len(d.feasible) {
				d.idx++
				break
			}
			it.decisions = it.decisions[:len(it.decisions)-1]
		}
		if len(it.decisions) == 0 {
			break
		}
		if res.Paths >= it.opt.MaxPaths {
			it.noteIncomplete(fmt.Sprintf("path budget %d exhausted", it.opt.MaxPaths))
			break
		}
		if !it.opt.Deadline.IsZero() && time.Now().After(it.opt.Deadline) {
			it.noteIncomplete("time budget exhausted")
			break
		}
	}
	return
}

func (it *Interp) runPath(fn *ssa.Function) (end *pathEnd) {
	it.pc = it.pc[:0]
	it.pins = nil
	it.dpos = 0
	it.nInputs = 0
	it.inputs = it.inputs[:0]
	it.steps = 0
	it.loopBound = it.opt.LoopBound
	it.stepBudget = 0
	it.sizeSampling = false
	it.allocBudg = 1 << 24
	it.obs = nil
	it.depth = 0
	it.panicking = nil
	it.files = map[string]*memFile{}
	it.clock = nil
	it.nClock = 0
	it.errSeq = 0
	it.curFn = it.curFn[:0]
	it.allocSlots = 0
	it.poolDirty = 0
	it.nextObj = it.initObjs
	if it.opt.TraceThreads {
		it.tracer = newTracer()
		it.tracer.it = it
	}
	it.sched = nil
	if it.opt.Sched {
		it.sched = newScheduler()
		it.curFn = make([]*ssa.Function, 0, 64)
	}
	defer func() {
		if it.sched != nil {
			r := recover()
			it.schedKillAll()
			if r != nil {
				defer panic(r)
			}
		}
	}()
	defer func() {
		it.rollback()
		if r := recover(); r != nil {
			switch x := r.(type) {
			case *pathEnd:
				end = x
			case *goPanicVal:
				// a Go panic escaped the harness: definite violation on this path
				end = &pathEnd{reason: "panic: " + x.msg}
				func() {
					defer func() {
						if r2 := recover(); r2 != nil {
							if _, ok := r2.(*pathEnd); !ok {
								panic(r2)
							}
						}
					}()
					where := "?"
					if x.msg != "" {
						where = x.msg
					}
					it.recordPanic(x, where)
				}()
			case *engineBugVal:
				end = &pathEnd{reason: "engine: " + x.msg, incomplete: true}
			default:
				panic(r)
			}
		}
		it.res.Steps += int64(it.steps)
		if it.tracer != nil {
			tt := it.tracer.finish()
			if len(tt.Threads) > 1 && end == nil {
				func() {
					defer func() { recover() }()
					it.sol.SyncPC(it.pc)
					if it.sol.CheckWith(it.ctx.True()) == sym.Sat {
						tt.Vector = it.modelVector()
					}
					it.sol.ReleaseModel()
				}()
			}
			it.res.Events = append(it.res.Events, tt)
		}
	}()
	it.callFunction(fn, nil)
	if it.sched != nil {
		it.schedQuiesce("end of the harness") // goroutines still able to run
	} else if it.tracer != nil {
		it.runPending() // goroutines still waiting to run
	}
	it.res.CompletedPaths++
	it.samplePath("ok")
	return nil
}

func (it *Interp) recordPanic(x *goPanicVal, msg string) {
	label := "no-panic"
	ls := it.label(label, "panic")
	if ls.Cex != nil {
		return
	}
	it.sol.SyncPC(it.pc)
	r := it.sol.CheckWith(it.ctx.True())
	if r == sym.Sat {
		ls.Cex = &Cex{Label: label, Kind: "panic", Detail: msg, Vector: it.modelVector(), Where: x.msg, PathNo: it.pathNo, Outcome: "panic:" + msg}
	} else if r == sym.Unknown {
		ls.Unknown++
	}
	it.sol.ReleaseModel()
}

// samplePath keeps a model of a completed path for native validation.
func (it *Interp) samplePath(outcome string) {
	if len(it.res.Samples) >= it.opt.SamplePaths {
		return
	}
	it.sol.SyncPC(it.pc)
	r := it.sol.CheckWith(it.ctx.True())
	defer it.sol.ReleaseModel()
	if r != sym.Sat {
		return
	}
	vec := it.modelVector()
	ps := PathSample{Vector: vec, Outcome: outcome}
	var terms []*sym.Term
	for _, o := range it.obs {
		if o.t != nil {
			terms = append(terms, o.t)
		}
		terms = append(terms, o.bs...)
	}
	m, err := it.sol.Values(terms)
	if err != nil {
		return
	}
	for _, o := range it.obs {
		if o.t != nil {
			ps.Obs = append(ps.Obs, fmt.Sprintf("%s=%d", o.name, m[o.t.ID]))
		} else {
			var sb strings.Builder
			for _, b := range o.bs {
				fmt.Fprintf(&sb, "%02x", m[b.ID])
			}
			ps.Obs = append(ps.Obs, o.name+"="+sb.String())
		}
	}
	it.res.Samples = append(it.res.Samples, ps)
}

// collectStatic finds the labels a harness is expected to cover.
func (it *Interp) collectStatic(fn *ssa.Function) {
	seen := map[*ssa.Function]bool{}
	var visit func(f *ssa.Function, depth int)
	visit = func(f *ssa.Function, depth int) {
		if seen[f] || f.Blocks == nil {
			return
		}
		seen[f] = true
		for _, b := range f.Blocks {
			for _, ins := range b.Instrs {
				c, ok := ins.(*ssa.Call)
				if !ok {
					continue
				}
				callee := c.Call.StaticCallee()
				if callee == nil {
					continue
				}
				if callee.Pkg != nil && strings.HasSuffix(callee.Pkg.Pkg.Path(), "/internal/vrt") && callee.Name() == "Covered" {
					if k, ok := c.Call.Args[0].(*ssa.Const); ok {
						it.res.WantCovered[constString(k)] = true
					}
				}
				// follow helper functions defined in harness files
				if callee.Pkg == fn.Pkg && strings.HasPrefix(callee.Name(), "verif") && depth < 4 {
					visit(callee, depth+1)
				}
			}
		}
		for _, af := range f.AnonFuncs {
			visit(af, depth)
		}
	}
	visit(fn, 0)
}
