package interp

import (
	"fmt"
	"go/types"
	"hash/crc32"
	"math"
	"os"
	"path/filepath"
	"strings"

	"golang.org/x/tools/go/ssa"

	"verif/engine/sym"
)

// errType / opaqueType are placeholder dynamic types for engine-owned values.
type errType struct{}

func (*errType) Underlying() types.Type { return &errType{} }
func (*errType) String() string         { return "engine.error" }

type opaqueType struct{ kind string }

func (o *opaqueType) Underlying() types.Type { return o }
func (o *opaqueType) String() string         { return "engine." + o.kind }

type errObj struct {
	msg string
}

func (it *Interp) opaqueImplements(t *opaqueType, iface *types.Interface) bool { return true }

func (it *Interp) pkgOf(fn *ssa.Function) string {
	if fn.Pkg != nil {
		return fn.Pkg.Pkg.Path()
	}
	if fn.Origin() != nil && fn.Origin().Pkg != nil {
		return fn.Origin().Pkg.Pkg.Path()
	}
	// methods / wrappers: use receiver's package
	if recv := fn.Signature.Recv(); recv != nil {
		if n, ok := types.Unalias(derefType(recv.Type())).(*types.Named); ok && n.Obj().Pkg() != nil {
			return n.Obj().Pkg().Path()
		}
	}
	if fn.Parent() != nil {
		return it.pkgOf(fn.Parent())
	}
	return ""
}

func isVrt(p string) bool { return strings.HasSuffix(p, "/internal/vrt") }

func (it *Interp) stub(name string) { it.res.Stubs[name] = true }

func b2i(b bool) uint64 {
	if b {
		return 1
	}
	return 0
}

// intrinsic handles functions the engine models natively. handled=false => interpret the SSA body.
func (it *Interp) intrinsic(fn *ssa.Function, args []Val, c *ssa.CallCommon) (Val, bool) {
	pkg := it.pkgOf(fn)
	name := fn.Name()
	if it.initPhase && name == "init" && fn.Pkg != nil && fn.Pkg != it.inInit && fn.Signature.Recv() == nil && fn.Parent() == nil {
		return nil, true // dependency init: ordered by initPackage
	}
	if fn.Signature.Recv() != nil {
		rt := derefType(fn.Signature.Recv().Type())
		if n, ok := types.Unalias(rt).(*types.Named); ok {
			name = n.Obj().Name() + "." + name
		}
	}
	if isVrt(pkg) {
		return it.vrtCall(name, args), true
	}
	// fast exit for repository code
	if strings.HasPrefix(pkg, "github.com/scigolib/hdf5") {
		return nil, false
	}
	full := pkg + "." + name
	cx := it.ctx
	switch full {
	// ---- math ----
	case "math.Float32bits", "math.Float32frombits", "math.Float64bits", "math.Float64frombits":
		return args[0], true
	case "math.IsNaN":
		x := args[0].(Int)
		if x.T == nil {
			return Bool{C: math.IsNaN(math.Float64frombits(x.C))}, true
		}
		return it.fromBTerm(cx.App("fp.isNaN", sym.BoolSort, it.fp(x))), true
	case "math.IsInf":
		x := args[0].(Int)
		sign := args[1].(Int)
		if x.T == nil && sign.T == nil {
			return Bool{C: math.IsInf(math.Float64frombits(x.C), int(sext(sign.C, 64)))}, true
		}
		if sign.T != nil {
			it.unsupported("math.IsInf with symbolic sign")
		}
		s := sext(sign.C, 64)
		pinf := cx.Eq(x.T, cx.BV(64, math.Float64bits(math.Inf(1))))
		ninf := cx.Eq(x.T, cx.BV(64, math.Float64bits(math.Inf(-1))))
		switch {
		case s > 0:
			return it.fromBTerm(pinf), true
		case s < 0:
			return it.fromBTerm(ninf), true
		}
		return it.fromBTerm(cx.Or(pinf, ninf)), true
	case "math.Inf":
		s := args[0].(Int)
		if s.T != nil {
			it.unsupported("math.Inf symbolic")
		}
		if sext(s.C, 64) >= 0 {
			return CInt(64, math.Float64bits(math.Inf(1))), true
		}
		return CInt(64, math.Float64bits(math.Inf(-1))), true
	case "math.NaN":
		return CInt(64, math.Float64bits(math.NaN())), true
	case "math.Signbit":
		x := args[0].(Int)
		if x.T == nil {
			return Bool{C: x.C>>63 == 1}, true
		}
		return it.fromBTerm(cx.Eq(cx.Extract(63, 63, x.T), cx.BV(1, 1))), true
	case "math.Abs":
		x := args[0].(Int)
		if x.T == nil {
			return CInt(64, x.C&^(1<<63)), true
		}
		return it.fromTerm(cx.BVBin("bvand", x.T, cx.BV(64, ^uint64(1<<63)))), true
	case "math.Floor", "math.Ceil", "math.Trunc", "math.Round", "math.RoundToEven":
		x := args[0].(Int)
		if x.T == nil {
			f := math.Float64frombits(x.C)
			var r float64
			switch name {
			case "Floor":
				r = math.Floor(f)
			case "Ceil":
				r = math.Ceil(f)
			case "Trunc":
				r = math.Trunc(f)
			case "Round":
				r = math.Round(f)
			default:
				r = math.RoundToEven(f)
			}
			return CInt(64, math.Float64bits(r)), true
		}
		if e, ok := it.log2Exp[x.T.ID]; ok && name == "Floor" {
			// e <= l < e+1  =>  floor(l) = e
			return it.intToFloat(e, 64, true), true
		}
		mode := map[string]string{"Floor": "RTN", "Ceil": "RTP", "Trunc": "RTZ", "Round": "RNA", "RoundToEven": "RNE"}[name]
		it.stub("math." + name + " = fp.roundToIntegral " + mode)
		return it.fromFP(cx.App("fp.roundToIntegral "+mode, sym.Sort{K: sym.KBV, W: -64}, it.fp(x)), 64), true
	case "math.Sqrt":
		x := args[0].(Int)
		if x.T == nil {
			return CInt(64, math.Float64bits(math.Sqrt(math.Float64frombits(x.C)))), true
		}
		return it.fromFP(cx.App("fp.sqrt RNE", sym.Sort{K: sym.KBV, W: -64}, it.fp(x)), 64), true
	case "math.Log2", "math.Log", "math.Log10", "math.Exp", "math.Exp2":
		x := args[0].(Int)
		if x.T == nil {
			f := math.Float64frombits(x.C)
			var r float64
			switch name {
			case "Log2":
				r = math.Log2(f)
			case "Log":
				r = math.Log(f)
			case "Log10":
				r = math.Log10(f)
			case "Exp":
				r = math.Exp(f)
			default:
				r = math.Exp2(f)
			}
			return CInt(64, math.Float64bits(r)), true
		}
		if name == "Log2" {
			return it.log2Contract(x), true
		}
		it.unsupported("math." + name + " on a symbolic value")
	case "math.Pow":
		x, y := args[0].(Int), args[1].(Int)
		if x.T == nil && y.T == nil {
			return CInt(64, math.Float64bits(math.Pow(math.Float64frombits(x.C), math.Float64frombits(y.C)))), true
		}
		return it.powContract(x, y), true
	case "math.Max", "math.Min":
		x, y := args[0].(Int), args[1].(Int)
		if x.T == nil && y.T == nil {
			a, b := math.Float64frombits(x.C), math.Float64frombits(y.C)
			if name == "Max" {
				return CInt(64, math.Float64bits(math.Max(a, b))), true
			}
			return CInt(64, math.Float64bits(math.Min(a, b))), true
		}
		return nil, false
	case "math.Mod":
		x, y := args[0].(Int), args[1].(Int)
		if x.T == nil && y.T == nil {
			return CInt(64, math.Float64bits(math.Mod(math.Float64frombits(x.C), math.Float64frombits(y.C)))), true
		}
		it.unsupported("math.Mod symbolic")

	// ---- hash/crc32 ----
	case "hash/crc32.ChecksumIEEE":
		s := args[0].(Slice)
		if bs, ok := it.sliceConcBytes(s); ok {
			return CInt(32, uint64(crc32.ChecksumIEEE(bs))), true
		}
		it.stub("hash/crc32.ChecksumIEEE = uninterpreted function of (length, bytes)")
		return it.ufBytes("crc32", it.sliceVals(s)), true

	// ---- sync ----
	case "sync.Pool.Get":
		return it.poolGet(args[0].(Ptr)), true
	case "sync.Pool.Put":
		it.poolPut(args[0].(Ptr), args[1])
		return nil, true
	case "sync.Mutex.Lock", "sync.Mutex.Unlock", "sync.RWMutex.Lock", "sync.RWMutex.Unlock", "sync.RWMutex.RLock", "sync.RWMutex.RUnlock", "sync.Mutex.TryLock":
		if it.sched != nil {
			return it.schedLock(name, args[0].(Ptr)), true
		}
		it.lockEvent(name, args[0].(Ptr))
		if name == "Mutex.TryLock" {
			return Bool{C: true}, true
		}
		return nil, true
	case "sync.WaitGroup.Add", "sync.WaitGroup.Done", "sync.WaitGroup.Wait", "sync.WaitGroup.Go":
		if it.sched != nil {
			it.schedWG(name, args)
			return nil, true
		}
		it.wgEvent(name, args)
		return nil, true
	case "sync.Once.Do":
		p := args[0].(Ptr)
		done := it.getSlot(p.Obj, p.Off)
		if d, ok := done.(Int); ok && d.C != 0 {
			return nil, true
		}
		if d, ok := done.(Agg); ok && len(d) > 0 {
			_ = d
		}
		it.setSlot(p.Obj, p.Off, onceDone(it.getSlot(p.Obj, p.Off)))
		it.callValue(args[1], nil, nil)
		return nil, true

	// ---- sync/atomic (sequential semantics) ----
	case "sync/atomic.Int64.Add", "sync/atomic.Int32.Add", "sync/atomic.Uint64.Add", "sync/atomic.Uint32.Add":
		p := args[0].(Ptr)
		off := it.atomicValueOffset(fn)
		if it.tracer != nil {
			it.tracer.mute++
			defer func() { it.tracer.mute-- }()
		}
		old := it.getSlot(p.Obj, p.Off+off).(Int)
		nv := it.fromTerm(cx.BVBin("bvadd", it.term(old), it.term(args[1].(Int))))
		it.atomicEvent(p, off, true)
		it.setSlot(p.Obj, p.Off+off, nv)
		return nv, true
	case "sync/atomic.Int64.Load", "sync/atomic.Int32.Load", "sync/atomic.Uint64.Load", "sync/atomic.Uint32.Load", "sync/atomic.Bool.Load":
		p := args[0].(Ptr)
		off := it.atomicValueOffset(fn)
		if it.tracer != nil {
			it.tracer.mute++
			defer func() { it.tracer.mute-- }()
		}
		it.atomicEvent(p, off, false)
		v := it.getSlot(p.Obj, p.Off+off)
		if name == "Bool.Load" {
			i := v.(Int)
			return Bool{C: i.C != 0}, true
		}
		return v, true
	case "sync/atomic.Int64.Store", "sync/atomic.Int32.Store", "sync/atomic.Uint64.Store", "sync/atomic.Uint32.Store", "sync/atomic.Bool.Store":
		p := args[0].(Ptr)
		off := it.atomicValueOffset(fn)
		if it.tracer != nil {
			it.tracer.mute++
			defer func() { it.tracer.mute-- }()
		}
		it.atomicEvent(p, off, true)
		v := args[1]
		if b, ok := v.(Bool); ok {
			v = CInt(32, b2i(b.C))
		}
		it.setSlot(p.Obj, p.Off+off, v)
		return nil, true

	// ---- fmt / errors ----
	case "fmt.Errorf":
		return it.errorf(args), true
	case "fmt.Sprintf":
		return it.sprintf(args[0].(Str), it.sliceVals(args[1].(Slice))), true
	case "fmt.Sprint", "fmt.Sprintln":
		var parts []string
		for _, a := range it.sliceVals(args[0].(Slice)) {
			parts = append(parts, it.fmtArg(a, 'v'))
		}
		return Str{S: strings.Join(parts, " ")}, true
	case "fmt.Printf", "fmt.Println", "fmt.Print", "fmt.Fprintf", "fmt.Fprintln", "fmt.Fprint":
		return Tuple{CInt(64, 0), Iface{}}, true
	case "errors.Is":
		return Bool{C: it.errorsIs(args[0].(Iface), args[1].(Iface), 0)}, true
	case "errors.Unwrap":
		return it.errorsUnwrap(args[0].(Iface)), true
	case "errors.As":
		return it.errorsAs(args[0].(Iface), args[1].(Iface), c), true

	// ---- os ----
	case "os.Create", "os.Open", "os.OpenFile", "os.Remove", "os.Truncate", "os.Stat", "os.ReadFile", "os.WriteFile":
		return it.osCall(name, args), true

	// ---- time ----
	case "time.Now":
		return it.timeNow(), true
	case "time.Since":
		now := it.timeNow()
		sub := it.lookupMethod("time", "Time", "Sub")
		return it.callFunction2(sub, []Val{now, args[0]}), true
	case "time.Sleep":
		if it.sched != nil {
			it.schedQuiesce("time.Sleep in " + it.where())
		}
		return nil, true
	case "time.NewTicker":
		return it.newTicker(args[0]), true
	case "time.Ticker.Stop":
		return nil, true
	case "time.After", "time.NewTimer", "time.AfterFunc":
		it.unsupported("time." + name)

	// ---- sort ----
	case "sort.Slice", "sort.SliceStable":
		it.sortSlice(args[0].(Iface), args[1])
		return nil, true
	case "sort.Ints", "sort.Strings", "sort.Float64s":
		return nil, false

	// ---- reflect ----
	case "reflect.ValueOf":
		return it.reflectValueOf(args[0].(Iface)), true
	case "reflect.TypeOf", "internal/reflectlite.TypeOf":
		i := args[0].(Iface)
		if i.T == nil {
			return Iface{}, true
		}
		return it.reflectType(i.T), true

	// ---- context ----
	case "context.Background", "context.TODO":
		return Iface{T: &opaqueType{"context"}, V: &Opaque{Kind: "context", V: &ctxState{}}}, true
	case "context.WithCancel":
		return it.contextWithCancel(args[0]), true
	case "context.WithTimeout", "context.WithDeadline":
		r := it.contextWithCancel(args[0])
		return r, true

	// ---- runtime / misc ----
	case "runtime.GC", "runtime.Gosched", "runtime.KeepAlive", "runtime.SetFinalizer":
		return nil, true
	case "runtime.NumGoroutine":
		return CInt(64, 1), true
	case "runtime.NumCPU", "runtime.GOMAXPROCS":
		return CInt(64, 1), true
	case "internal/bytealg.IndexByte", "internal/bytealg.IndexByteString":
		return it.indexByte(args[0], args[1].(Int)), true
	case "internal/bytealg.Equal":
		a, b := args[0].(Slice), args[1].(Slice)
		if a.Len != b.Len {
			return Bool{C: false}, true
		}
		return it.strEq(Str{B: orEmpty(it.sliceVals(a))}, Str{B: orEmpty(it.sliceVals(b))}), true
	case "internal/bytealg.Count", "internal/bytealg.CountString":
		return it.countByte(args[0], args[1].(Int)), true
	case "internal/bytealg.Compare":
		a, b := args[0].(Slice), args[1].(Slice)
		x, y := Str{B: orEmpty(it.sliceVals(a))}, Str{B: orEmpty(it.sliceVals(b))}
		if x.IsConc() && y.IsConc() {
			return CInt(64, uint64(int64(strings.Compare(x.Conc(), y.Conc())))), true
		}
		it.unsupported("bytealg.Compare symbolic")
	case "internal/bytealg.IndexString", "internal/bytealg.Index":
		h, n := it.asStr(args[0]), it.asStr(args[1])
		if h.IsConc() && n.IsConc() {
			return CInt(64, uint64(int64(strings.Index(h.Conc(), n.Conc())))), true
		}
		it.unsupported("bytealg.Index symbolic")
	case "internal/bytealg.MakeNoZero":
		n := args[0].(Int)
		o := it.allocArray(types.Typ[types.Uint8], int(n.C), "MakeNoZero")
		return Slice{Obj: o, Len: int(n.C), Cap: int(n.C), ES: 1}, true
	case "strings.Builder.copyCheck":
		return nil, true
	case "internal/stringslite.Index", "strings.Index":
		h, n := it.asStr(args[0]), it.asStr(args[1])
		if h.IsConc() && n.IsConc() {
			return CInt(64, uint64(int64(strings.Index(h.Conc(), n.Conc())))), true
		}
		return nil, false
	case "strings.Contains":
		h, n := it.asStr(args[0]), it.asStr(args[1])
		if h.IsConc() && n.IsConc() {
			return Bool{C: strings.Contains(h.Conc(), n.Conc())}, true
		}
		return nil, false
	case "unique.Make", "internal/abi.NoEscape", "internal/abi.Escape":
		return args[0], true
	case "internal/race.Acquire", "internal/race.Release", "internal/race.ReleaseMerge", "internal/race.Enable", "internal/race.Disable", "internal/race.Read", "internal/race.Write", "internal/race.ReadRange", "internal/race.WriteRange":
		return nil, true
	case "internal/godebug.Setting.Value", "internal/godebug.Setting.IncNonDefault":
		if strings.HasSuffix(name, "Value") {
			return Str{}, true
		}
		return nil, true
	}
	if strings.HasPrefix(pkg, "reflect") || pkg == "internal/reflectlite" {
		return it.reflectCall(name, args, c), true
	}
	if pkg == "context" {
		return it.contextCall(name, args), true
	}
	if pkg == "os" {
		if strings.HasPrefix(name, "File.") {
			return it.fileCall(name, args), true
		}
		it.unsupported("os." + name)
	}
	if pkg == "compress/bzip2" {
		it.unsupported("compress/* is not modelled (" + full + ")")
	}
	if pkg == "runtime" || pkg == "syscall" || strings.HasPrefix(pkg, "internal/") && fn.Blocks == nil {
		it.unsupported("runtime function " + full)
	}
	return nil, false
}

func orEmpty(v []Val) []Val {
	if v == nil {
		return []Val{}
	}
	return v
}

func onceDone(old Val) Val {
	switch o := old.(type) {
	case Int:
		return CInt(o.W, 1)
	}
	return CInt(32, 1)
}

func (it *Interp) atomicValueOffset(fn *ssa.Function) int {
	// atomic.Int64 { _ noCopy; _ align64; v int64 }: the value is the last slot
	rt := derefType(fn.Signature.Recv().Type())
	return it.slotCount(rt) - 1
}

func (it *Interp) asStr(v Val) Str {
	switch x := v.(type) {
	case Str:
		return x
	case Slice:
		return Str{B: orEmpty(it.sliceVals(x))}
	}
	it.engineBug("asStr on " + describe(v))
	return Str{}
}

func (it *Interp) indexByte(hay Val, b Int) Val {
	s := it.asStr(hay)
	n := s.Len()
	cx := it.ctx
	res := cx.BV(64, ^uint64(0))
	allConc := b.T == nil
	for i := n - 1; i >= 0; i-- {
		e := s.At(i).(Int)
		if e.T != nil {
			allConc = false
		}
		res = cx.Ite(cx.Eq(it.term(e), it.term(b)), cx.BV(64, uint64(i)), res)
	}
	_ = allConc
	return it.fromTerm(res)
}

func (it *Interp) countByte(hay Val, b Int) Val {
	s := it.asStr(hay)
	cx := it.ctx
	res := cx.BV(64, 0)
	for i := 0; i < s.Len(); i++ {
		e := s.At(i).(Int)
		res = cx.BVBin("bvadd", res, cx.Ite(cx.Eq(it.term(e), it.term(b)), cx.BV(64, 1), cx.BV(64, 0)))
	}
	return it.fromTerm(res)
}

// ufBytes applies an uninterpreted function to a byte string (length is part of the name).
func (it *Interp) ufBytes(tag string, vals []Val) Int {
	// pack bytes into 64-bit words to keep arity small
	var words []*sym.Term
	cx := it.ctx
	for i := 0; i < len(vals); i += 8 {
		var w *sym.Term
		for j := i; j < i+8; j++ {
			var b *sym.Term
			if j < len(vals) {
				b = it.term(vals[j].(Int))
			} else {
				b = cx.BV(8, 0)
			}
			if w == nil {
				w = b
			} else {
				w = cx.Concat(b, w)
			}
		}
		words = append(words, w)
	}
	if len(words) == 0 {
		words = append(words, cx.BV(64, 0))
	}
	return it.fromTerm(cx.UF(fmt.Sprintf("uf_%s_len%d", tag, len(vals)), sym.BVSort(32), words...))
}

func (it *Interp) lookupMethod(pkg, typ, method string) *ssa.Function {
	p := it.prog.ImportedPackage(pkg)
	if p == nil {
		it.unsupported("package " + pkg + " not loaded")
	}
	t := p.Type(typ)
	if t == nil {
		it.unsupported("type " + pkg + "." + typ)
	}
	for _, recv := range []types.Type{t.Type(), types.NewPointer(t.Type())} {
		ms := it.prog.MethodSets.MethodSet(recv)
		if sel := ms.Lookup(p.Pkg, method); sel != nil {
			return it.prog.MethodValue(sel)
		}
	}
	it.unsupported("method " + typ + "." + method)
	return nil
}

// ---- vrt ----

func (it *Interp) vrtCall(name string, args []Val) Val {
	cx := it.ctx
	switch name {
	case "U8":
		return it.inputInt(8)
	case "U16":
		return it.inputInt(16)
	case "U32", "I32":
		return it.inputInt(32)
	case "U64", "I64", "Int":
		return it.inputInt(64)
	case "Bool":
		v := it.newInput()
		return it.fromBTerm(cx.Eq(cx.Extract(0, 0, v), cx.BV(1, 1)))
	case "Choice":
		k := args[0].(Int)
		if k.T != nil {
			it.engineBug("vrt.Choice with symbolic k")
		}
		n := int(k.C)
		v := it.newInput()
		if n <= 1 {
			it.addPC(cx.Eq(v, cx.BV(64, 0)))
			return CInt(64, 0)
		}
		conds := make([]*sym.Term, n)
		for i := range conds {
			conds[i] = cx.Eq(v, cx.BV(64, uint64(i)))
		}
		return CInt(64, uint64(it.choose(conds, false)))
	case "SchedPoint":
		// decision input (part of the replay vector): 0 = go on, 1 = the other goroutines run first
		v := it.newInput()
		if it.sched == nil || !it.sched.othersRunnable(it.sched.cur) {
			it.addPC(cx.Eq(v, cx.BV(64, 0)))
			return nil
		}
		conds := []*sym.Term{cx.Eq(v, cx.BV(64, 0)), cx.Eq(v, cx.BV(64, 1))}
		if it.choose(conds, false) == 1 {
			it.schedQuiesce("vrt.SchedPoint(" + args[0].(Str).Conc() + ")")
		}
		return nil
	case "AssertNoGoroutines":
		label := args[0].(Str).Conc()
		if it.sched == nil {
			it.unsupported("vrt.AssertNoGoroutines outside schedule mode")
		}
		it.schedQuiesce("vrt.AssertNoGoroutines")
		var alive []string
		for _, t := range it.sched.threads[1:] {
			if t != nil && !t.done {
				alive = append(alive, t.name+" ("+t.why+")")
			}
		}
		it.oblige(Bool{C: len(alive) == 0}, label, "assert", "still alive: "+strings.Join(alive, "; "))
		return nil
	case "Corpus":
		rel := args[0].(Str).Conc()
		it.stub("vrt.Corpus = the bytes of a corpus file of the repository (concrete)")
		b, err := os.ReadFile(filepath.Join(it.opt.PkgDir, rel))
		if err != nil {
			it.unsupported("vrt.Corpus: " + err.Error())
		}
		vals := make([]Val, len(b))
		for i := range vals {
			vals[i] = CInt(8, uint64(b[i]))
		}
		return it.bytesToSlice(vals, "vrt.Corpus")
	case "Bytes":
		n := args[0].(Int)
		if n.T != nil {
			it.engineBug("vrt.Bytes with symbolic n")
		}
		vals := make([]Val, int(n.C))
		for i := range vals {
			vals[i] = it.inputInt(8)
		}
		return it.bytesToSlice(vals, "vrt.Bytes")
	case "Concretize":
		v := args[0].(Int)
		mx := args[1].(Int)
		return CInt(64, it.concretize(v, int(mx.C), "vrt.Concretize"))
	case "Assume":
		b := args[0].(Bool)
		if b.T == nil {
			if !b.C {
				panic(&pathEnd{reason: "assume false", assume: true})
			}
			return nil
		}
		it.sol.SyncPC(it.pc)
		r := it.sol.CheckWith(b.T)
		it.sol.ReleaseModel()
		if r == sym.Unsat {
			panic(&pathEnd{reason: "assume infeasible", assume: true})
		}
		it.addPC(b.T)
		return nil
	case "Assert":
		label := args[1].(Str).Conc()
		it.oblige(args[0].(Bool), label, "assert", "")
		return nil
	case "AssertNoErr":
		e := args[0].(Iface)
		label := args[1].(Str).Conc()
		if e.T == nil {
			it.oblige(Bool{C: true}, label, "assert", "")
			return nil
		}
		msg := "<error>"
		func() {
			defer func() {
				if r := recover(); r != nil {
					if _, ok := r.(*pathEnd); !ok {
						panic(r)
					}
				}
			}()
			if s, ok := it.callMethod(e, "Error").(Str); ok {
				msg = s.Conc()
			}
		}()
		it.oblige(Bool{C: false}, label, "assert", "error: "+msg)
		return nil
	case "Fail":
		label := args[0].(Str).Conc()
		it.oblige(Bool{C: false}, label, "assert", "")
		return nil
	case "Observe":
		it.obs = append(it.obs, obsRec{name: args[0].(Str).Conc(), t: it.term(args[1].(Int))})
		return nil
	case "ObserveBytes":
		s := args[1].(Slice)
		var bs []*sym.Term
		for _, v := range it.sliceVals(s) {
			bs = append(bs, it.term(v.(Int)))
		}
		it.obs = append(it.obs, obsRec{name: args[0].(Str).Conc(), bs: bs})
		return nil
	case "Symbolic":
		return Bool{C: true}
	case "Thorough":
		return Bool{C: it.opt.Thorough}
	case "AllocBudget":
		it.allocBudg = int(args[0].(Int).C)
		it.res.Bounds["alloc_budget_elems"] = it.allocBudg
		return nil
	case "SampleSizes":
		it.sizeSampling = true
		return nil
	case "StepBudget":
		it.stepBudget = int(args[0].(Int).C) + it.steps
		it.res.Bounds["step_budget"] = int(args[0].(Int).C)
		return nil
	case "LoopBound":
		it.loopBound = int(args[0].(Int).C)
		it.res.Bounds["loop_unwind"] = it.loopBound
		return nil
	case "Covered":
		it.res.Covered[args[0].(Str).Conc()] = true
		return nil
	case "UF32":
		return it.ufBytes(args[0].(Str).Conc(), it.sliceVals(args[1].(Slice)))
	case "SetVector", "Run", "Report":
		it.engineBug("vrt." + name + " must not be called from a harness")
	}
	it.engineBug("unknown vrt function " + name)
	return nil
}

// ---- sync.Pool: LIFO model of a single goroutine's pool ----

type poolState struct {
	items []Val
}

func (it *Interp) poolFor(p Ptr) *poolState {
	key := fmt.Sprintf("pool:%d:%d", p.Obj.ID, p.Off)
	if f, ok := it.files[key]; ok {
		return f.pool
	}
	ps := &poolState{}
	it.files[key] = &memFile{pool: ps}
	return ps
}

func (it *Interp) poolGet(p Ptr) Val {
	it.stub("sync.Pool = LIFO free list of one goroutine (Get returns the most recently Put value, else New())")
	ps := it.poolFor(p)
	if n := len(ps.items); n > 0 {
		v := ps.items[n-1]
		ps.items = ps.items[:n-1]
		if i, ok := v.(Iface); ok {
			if s, ok := i.V.(Slice); ok && s.Obj != nil {
				s.Obj.Released = false
			}
		}
		return v
	}
	// New is the last field of sync.Pool
	pt := it.prog.ImportedPackage("sync").Type("Pool").Type().Underlying().(*types.Struct)
	off := it.fieldOffset(pt, pt.NumFields()-1)
	newFn := it.getSlot(p.Obj, p.Off+off)
	if cl, ok := newFn.(Closure); ok && (cl.Fn != nil) {
		return it.callValue(cl, nil, nil)
	}
	return Iface{}
}

func (it *Interp) poolPut(p Ptr, v Val) {
	ps := it.poolFor(p)
	if i, ok := v.(Iface); ok {
		if s, ok := i.V.(Slice); ok && s.Obj != nil {
			s.Obj.Released = true
		}
	}
	ps.items = append(ps.items, v)
}

// ---- fmt / errors ----

func (it *Interp) fmtArg(a Val, verb rune) string {
	i, ok := a.(Iface)
	if !ok {
		return describe(a)
	}
	if i.T == nil {
		return "<nil>"
	}
	switch x := i.V.(type) {
	case Int:
		if x.T != nil {
			return "<sym>"
		}
		if isFloat(i.T) {
			if x.W == 32 {
				return fmt.Sprint(math.Float32frombits(uint32(x.C)))
			}
			return fmt.Sprint(math.Float64frombits(x.C))
		}
		f := "%" + string(verb)
		switch verb {
		case 'd', 'x', 'X', 'o', 'b', 'c', 'q', 'U', 'v':
		default:
			f = "%v"
		}
		if isSigned(i.T) {
			return fmt.Sprintf(f, sext(x.C, x.W))
		}
		return fmt.Sprintf(f, x.C)
	case Bool:
		if x.T != nil {
			return "<sym>"
		}
		return fmt.Sprint(x.C)
	case Str:
		if !x.IsConc() {
			return "<symstr>"
		}
		if verb == 'q' {
			return fmt.Sprintf("%q", x.Conc())
		}
		return x.Conc()
	}
	// error / Stringer
	if it.implements(i.T, errorIface) {
		s := it.callMethod(i, "Error")
		if ss, ok := s.(Str); ok && ss.IsConc() {
			return ss.Conc()
		}
		return "<error>"
	}
	return "<" + i.T.String() + ">"
}

var errorIface = types.Universe.Lookup("error").Type().Underlying().(*types.Interface)

func (it *Interp) callMethod(recv Iface, name string) Val {
	ms := it.prog.MethodSets.MethodSet(recv.T)
	for i := 0; i < ms.Len(); i++ {
		if ms.At(i).Obj().Name() == name {
			fn := it.prog.MethodValue(ms.At(i))
			if fn == nil {
				break
			}
			return it.callFn(fn, []Val{recv.V}, nil)
		}
	}
	it.unsupported("method " + name + " on " + recv.T.String())
	return nil
}

func (it *Interp) hasMethod(t types.Type, name string) *ssa.Function {
	if _, ok := t.(*errType); ok {
		return nil
	}
	if _, ok := t.(*opaqueType); ok {
		return nil
	}
	ms := it.prog.MethodSets.MethodSet(t)
	for i := 0; i < ms.Len(); i++ {
		if ms.At(i).Obj().Name() == name {
			return it.prog.MethodValue(ms.At(i))
		}
	}
	return nil
}

func (it *Interp) sprintf(format Str, args []Val) Val {
	f := format.Conc()
	var sb strings.Builder
	ai := 0
	for i := 0; i < len(f); i++ {
		if f[i] != '%' {
			sb.WriteByte(f[i])
			continue
		}
		j := i + 1
		for j < len(f) && strings.IndexByte("+-# 0123456789.*[]", f[j]) >= 0 {
			j++
		}
		if j >= len(f) {
			break
		}
		verb := rune(f[j])
		spec := f[i : j+1]
		i = j
		if verb == '%' {
			sb.WriteByte('%')
			continue
		}
		if ai >= len(args) {
			sb.WriteString("%!" + string(verb) + "(MISSING)")
			continue
		}
		a := args[ai]
		ai++
		s := it.fmtArg(a, verb)
		// apply width/zero padding for integers when concrete
		if ii, ok := a.(Iface); ok {
			if x, ok := ii.V.(Int); ok && x.T == nil && !isFloat(ii.T) && strings.IndexByte("dxXob", byte(verb)) >= 0 {
				if isSigned(ii.T) {
					s = fmt.Sprintf(spec, sext(x.C, x.W))
				} else {
					s = fmt.Sprintf(spec, x.C)
				}
			} else if x, ok := ii.V.(Int); ok && x.T == nil && isFloat(ii.T) {
				if x.W == 32 {
					s = fmt.Sprintf(spec, math.Float32frombits(uint32(x.C)))
				} else {
					s = fmt.Sprintf(spec, math.Float64frombits(x.C))
				}
			}
		}
		sb.WriteString(s)
	}
	return Str{S: sb.String()}
}

// errorf builds a real *fmt.wrapError / *errors.errorString value.
func (it *Interp) errorf(args []Val) Val {
	format := args[0].(Str)
	av := it.sliceVals(args[1].(Slice))
	msg := it.sprintf(format, av).(Str)
	// find %w operands
	f := format.Conc()
	var wrapped []Val
	ai := 0
	for i := 0; i < len(f); i++ {
		if f[i] != '%' {
			continue
		}
		j := i + 1
		for j < len(f) && strings.IndexByte("+-# 0123456789.*[]", f[j]) >= 0 {
			j++
		}
		if j >= len(f) {
			break
		}
		if f[j] == '%' {
			i = j
			continue
		}
		if f[j] == 'w' && ai < len(av) {
			if e, ok := av[ai].(Iface); ok && e.T != nil {
				wrapped = append(wrapped, e)
			}
		}
		ai++
		i = j
	}
	fmtPkg := it.prog.ImportedPackage("fmt")
	if len(wrapped) == 1 && fmtPkg != nil && fmtPkg.Type("wrapError") != nil {
		wt := fmtPkg.Type("wrapError").Type()
		o := it.allocType(wt, "fmt.Errorf")
		o.Slots[0] = msg
		o.Slots[1] = wrapped[0]
		return Iface{T: types.NewPointer(wt), V: Ptr{Obj: o}}
	}
	if len(wrapped) > 1 {
		it.unsupported("fmt.Errorf with several %w")
	}
	ep := it.prog.ImportedPackage("errors")
	et := ep.Type("errorString").Type()
	o := it.allocType(et, "fmt.Errorf")
	o.Slots[0] = msg
	return Iface{T: types.NewPointer(et), V: Ptr{Obj: o}}
}

func (it *Interp) errorsUnwrap(e Iface) Val {
	if e.T == nil {
		return Iface{}
	}
	if fn := it.hasMethod(e.T, "Unwrap"); fn != nil {
		if fn.Signature.Results().Len() == 1 && types.Identical(fn.Signature.Results().At(0).Type(), types.Universe.Lookup("error").Type()) {
			return it.callFn(fn, []Val{e.V}, nil)
		}
	}
	return Iface{}
}

func (it *Interp) errorsIs(err, target Iface, depth int) bool {
	if depth > 50 {
		return false
	}
	for err.T != nil {
		if target.T != nil && it.identical(err.T, target.T) {
			if eq := it.valEq(err.V, target.V); eq.T == nil && eq.C {
				return true
			}
		}
		if target.T == nil {
			return false
		}
		if fn := it.hasMethod(err.T, "Is"); fn != nil && fn.Signature.Params().Len() == 1 {
			r := it.callFn(fn, []Val{err.V, target}, nil)
			if b, ok := r.(Bool); ok && b.T == nil && b.C {
				return true
			}
		}
		fn := it.hasMethod(err.T, "Unwrap")
		if fn == nil {
			return false
		}
		r := it.callFn(fn, []Val{err.V}, nil)
		switch x := r.(type) {
		case Iface:
			err = x
		case Slice:
			for _, e := range it.sliceVals(x) {
				if it.errorsIs(e.(Iface), target, depth+1) {
					return true
				}
			}
			return false
		default:
			return false
		}
	}
	return false
}

func (it *Interp) errorsAs(err, target Iface, c *ssa.CallCommon) Val {
	// target is a non-nil pointer to a type implementing error or to an interface
	tp, ok := target.V.(Ptr)
	if !ok || tp.Obj == nil {
		it.goPanic("errors: target must be a non-nil pointer")
	}
	want := derefType(target.T)
	for err.T != nil {
		match := false
		if types.IsInterface(want) {
			match = it.implements(err.T, want.Underlying().(*types.Interface))
		} else {
			match = it.identical(err.T, want)
		}
		if match {
			if types.IsInterface(want) {
				it.store(tp, want, err)
			} else {
				it.store(tp, want, err.V)
			}
			return Bool{C: true}
		}
		fn := it.hasMethod(err.T, "Unwrap")
		if fn == nil {
			break
		}
		r := it.callFn(fn, []Val{err.V}, nil)
		e, ok := r.(Iface)
		if !ok {
			break
		}
		err = e
	}
	return Bool{C: false}
}

func (it *Interp) identical(a, b types.Type) bool {
	if a == b {
		return true
	}
	switch a.(type) {
	case *errType, *opaqueType:
		return false
	}
	switch b.(type) {
	case *errType, *opaqueType:
		return false
	}
	return types.Identical(a, b)
}

// ---- math contracts ----

// log2Contract: for finite positive x with unbiased exponent e: e <= log2(x) < e+1, and exactly e when x is a power of two.
func (it *Interp) log2Contract(x Int) Val {
	it.stub("math.Log2(x) = unconstrained l with e <= l < e+1 (e = exponent of x; l == e when x is a power of two), for finite positive normal x")
	cx := it.ctx
	fs := sym.Sort{K: sym.KBV, W: -64}
	xf := it.fp(x)
	isPosNormal := cx.And(cx.App("fp.isNormal", sym.BoolSort, xf), cx.App("fp.isPositive", sym.BoolSort, xf))
	if !it.branch(isPosNormal) {
		it.noteIncomplete("math.Log2 of a non-normal or non-positive symbolic value not modelled")
		it.endPath("math.Log2 outside contract", false)
	}
	// e = biased exponent - 1023 as float
	exp := cx.ZExt(53, cx.Extract(62, 52, x.T)) // 64-bit
	e := cx.BVBin("bvsub", exp, cx.BV(64, 1023))
	ef := cx.App("(_ to_fp 11 53) RNE", fs, e)
	e1f := cx.App("(_ to_fp 11 53) RNE", fs, cx.BVBin("bvadd", e, cx.BV(64, 1)))
	l := cx.Fresh("log2", sym.BVSort(64))
	lf := it.fp(Int{W: 64, T: l})
	mantZero := cx.Eq(cx.Extract(51, 0, x.T), cx.BV(52, 0))
	it.addPC(cx.App("fp.leq", sym.BoolSort, ef, lf))
	it.addPC(cx.App("fp.lt", sym.BoolSort, lf, e1f))
	it.addPC(cx.Implies(mantZero, cx.App("fp.eq", sym.BoolSort, lf, ef)))
	it.addPC(cx.Implies(cx.Not(mantZero), cx.App("fp.gt", sym.BoolSort, lf, ef)))
	if it.log2Exp == nil {
		it.log2Exp = map[int]Int{}
	}
	it.log2Exp[l.ID] = it.fromTerm(e)
	return Int{W: 64, T: l}
}

// powContract: math.Pow(2, k) for integral k in [-1074, 1023] is exact.
func (it *Interp) powContract(x, y Int) Val {
	if x.T != nil || math.Float64frombits(x.C) != 2 {
		it.unsupported("math.Pow with symbolic or non-2 base")
	}
	it.stub("math.Pow(2,k) = exact 2^k for integral k in [-1022,1023]")
	cx := it.ctx
	fs := sym.Sort{K: sym.KBV, W: -64}
	yf := it.fp(y)
	isInt := cx.App("fp.eq", sym.BoolSort, yf, cx.App("fp.roundToIntegral RTZ", fs, yf))
	mk := func(f float64) *sym.Term {
		return cx.App("(_ to_fp 11 53)", fs, cx.BV(64, math.Float64bits(f)))
	}
	inRange := cx.And(cx.App("fp.geq", sym.BoolSort, yf, mk(-1022)), cx.App("fp.leq", sym.BoolSort, yf, mk(1023)))
	if !it.branch(cx.And(isInt, inRange)) {
		it.noteIncomplete("math.Pow(2,y) with non-integral or out-of-range symbolic y not modelled")
		it.endPath("math.Pow outside contract", false)
	}
	k := cx.App("(_ fp.to_sbv 64) RTZ", sym.BVSort(64), yf)
	biased := cx.BVBin("bvadd", k, cx.BV(64, 1023))
	bits := cx.BVBin("bvshl", biased, cx.BV(64, 52))
	return it.fromTerm(bits)
}

// ---- sort.Slice: insertion sort driving the real less closure ----

func (it *Interp) sortSlice(x Iface, less Val) {
	it.stub("sort.Slice = insertion sort driving the real less closure")
	s, ok := x.V.(Slice)
	if !ok {
		it.engineBug("sort.Slice on non-slice")
	}
	st := x.T.Underlying().(*types.Slice)
	et := st.Elem()
	n := s.Len
	get := func(i int) Val { return it.loadAt(s.Obj, s.Off+i*s.ES, et) }
	put := func(i int, v Val) { it.storeAt(s.Obj, s.Off+i*s.ES, et, v) }
	for i := 1; i < n; i++ {
		for j := i; j > 0; j-- {
			r := it.callValue(less, []Val{CInt(64, uint64(j)), CInt(64, uint64(j-1))}, nil).(Bool)
			lt := r.C
			if r.T != nil {
				lt = it.branch(r.T)
			}
			if !lt {
				break
			}
			a, b := get(j), get(j-1)
			put(j, b)
			put(j-1, a)
		}
	}
}
