package interp

import (
	"fmt"
	"os"
	"path/filepath"
	"sort"
	"strings"

	"golang.org/x/tools/go/packages"
	"golang.org/x/tools/go/ssa"
	"golang.org/x/tools/go/ssa/ssautil"
)

// Program is the loaded SSA form of /repo (current working tree) plus harness overlays.
type Program struct {
	Prog    *ssa.Program
	Pkgs    []*ssa.Package
	Harness map[string]*ssa.Function // by name
	Overlay map[string]string        // virtual path -> real path
}

// Load loads /repo with the harness files of harnessDir overlaid (nothing is written into repoDir).
func Load(repoDir, harnessDir string) (*Program, error) {
	overlay := map[string][]byte{}
	omap := map[string]string{}
	err := filepath.Walk(harnessDir, func(p string, info os.FileInfo, err error) error {
		if err != nil || info.IsDir() || !strings.HasSuffix(p, ".go") {
			return err
		}
		rel, _ := filepath.Rel(harnessDir, p)
		b, err := os.ReadFile(p)
		if err != nil {
			return err
		}
		v := filepath.Join(repoDir, rel)
		overlay[v] = b
		omap[v] = p
		return nil
	})
	if err != nil {
		return nil, err
	}
	cfg := &packages.Config{
		Mode:       packages.LoadAllSyntax,
		Dir:        repoDir,
		Overlay:    overlay,
		BuildFlags: []string{"-tags=verif"},
		Env:        append(os.Environ(), "GOFLAGS=-mod=mod", "GOPROXY=off", "GOTOOLCHAIN=local", "GOSUMDB=off"),
	}
	pkgs, err := packages.Load(cfg, ".", "./internal/...")
	if err != nil {
		return nil, err
	}
	var errs []string
	packages.Visit(pkgs, nil, func(p *packages.Package) {
		for _, e := range p.Errors {
			errs = append(errs, e.Error())
		}
	})
	if len(errs) > 0 {
		sort.Strings(errs)
		if len(errs) > 20 {
			errs = errs[:20]
		}
		return nil, fmt.Errorf("load errors:\n%s", strings.Join(errs, "\n"))
	}
	prog, spkgs := ssautil.AllPackages(pkgs, ssa.InstantiateGenerics)
	prog.Build()
	res := &Program{Prog: prog, Harness: map[string]*ssa.Function{}, Overlay: omap}
	for _, sp := range spkgs {
		if sp == nil {
			continue
		}
		res.Pkgs = append(res.Pkgs, sp)
		for name, m := range sp.Members {
			if fn, ok := m.(*ssa.Function); ok && strings.HasPrefix(name, "VerifH_") {
				res.Harness[name] = fn
			}
		}
	}
	return res, nil
}
