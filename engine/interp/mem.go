package interp

import (
	"fmt"
	"go/types"

	"verif/engine/sym"
)

// slotCount returns the number of scalar slots a value of type t occupies.
func (it *Interp) slotCount(t types.Type) int {
	if n, ok := it.slotCache[t]; ok {
		return n
	}
	n := 1
	switch u := t.Underlying().(type) {
	case *types.Struct:
		n = 0
		for i := 0; i < u.NumFields(); i++ {
			n += it.slotCount(u.Field(i).Type())
		}
	case *types.Array:
		n = int(u.Len()) * it.slotCount(u.Elem())
	case *types.Tuple:
		n = 0
		for i := 0; i < u.Len(); i++ {
			n += it.slotCount(u.At(i).Type())
		}
	}
	it.slotCache[t] = n
	return n
}

func (it *Interp) fieldOffset(st *types.Struct, idx int) int {
	off := 0
	for i := 0; i < idx; i++ {
		off += it.slotCount(st.Field(i).Type())
	}
	return off
}

func basicWidth(b *types.Basic) uint8 {
	switch b.Kind() {
	case types.Int8, types.Uint8:
		return 8
	case types.Int16, types.Uint16:
		return 16
	case types.Int32, types.Uint32, types.Float32:
		return 32
	case types.Int, types.Uint, types.Int64, types.Uint64, types.Uintptr, types.Float64, types.UnsafePointer, types.UntypedInt, types.UntypedFloat, types.UntypedRune:
		return 64
	}
	return 0
}

func isSigned(t types.Type) bool {
	b, ok := t.Underlying().(*types.Basic)
	return ok && b.Info()&types.IsInteger != 0 && b.Info()&types.IsUnsigned == 0
}

func isFloat(t types.Type) bool {
	b, ok := t.Underlying().(*types.Basic)
	return ok && b.Info()&types.IsFloat != 0
}

func isInteger(t types.Type) bool {
	b, ok := t.Underlying().(*types.Basic)
	return ok && b.Info()&types.IsInteger != 0
}

func isString(t types.Type) bool {
	b, ok := t.Underlying().(*types.Basic)
	return ok && b.Info()&types.IsString != 0
}

func isBool(t types.Type) bool {
	b, ok := t.Underlying().(*types.Basic)
	return ok && b.Info()&types.IsBoolean != 0
}

// zeroInto fills slots with the zero value of t, returns slots consumed.
func (it *Interp) zeroInto(slots []Val, t types.Type) int {
	switch u := t.Underlying().(type) {
	case *types.Struct:
		o := 0
		for i := 0; i < u.NumFields(); i++ {
			o += it.zeroInto(slots[o:], u.Field(i).Type())
		}
		return o
	case *types.Array:
		es := it.slotCount(u.Elem())
		n := int(u.Len())
		if n == 0 {
			return 0
		}
		if es == 1 {
			z := it.zeroScalar(u.Elem())
			for i := 0; i < n; i++ {
				slots[i] = z
			}
			return n
		}
		o := 0
		for i := 0; i < n; i++ {
			o += it.zeroInto(slots[o:], u.Elem())
		}
		return o
	}
	if it.slotCount(t) == 1 {
		slots[0] = it.zeroScalar(t)
		return 1
	}
	return 0
}

func (it *Interp) zeroScalar(t types.Type) Val {
	switch u := t.Underlying().(type) {
	case *types.Basic:
		switch {
		case u.Info()&types.IsBoolean != 0:
			return Bool{}
		case u.Info()&types.IsString != 0:
			return Str{}
		case u.Kind() == types.UnsafePointer:
			return Ptr{}
		case u.Kind() == types.UntypedNil:
			return nil
		case u.Info()&types.IsComplex != 0:
			it.unsupported("complex numbers")
		}
		return Int{W: basicWidth(u)}
	case *types.Pointer:
		return Ptr{}
	case *types.Slice:
		return Slice{ES: it.slotCount(u.Elem())}
	case *types.Map:
		return (*MapObj)(nil)
	case *types.Chan:
		return (*ChanObj)(nil)
	case *types.Signature:
		return Closure{}
	case *types.Interface:
		return Iface{}
	case *types.Struct, *types.Array:
		// single-slot aggregate
		s := make([]Val, 1)
		it.zeroInto(s, t)
		return s[0]
	case *types.TypeParam:
		it.unsupported("type parameter value")
	}
	it.unsupported("zero value of " + t.String())
	return nil
}

// zeroVal returns the zero value of t as a first-class value (scalar or Agg).
func (it *Interp) zeroVal(t types.Type) Val {
	n := it.slotCount(t)
	if n == 1 {
		return it.zeroScalar(t)
	}
	if tt, ok := t.(*types.Tuple); ok {
		r := make(Tuple, tt.Len())
		for i := range r {
			r[i] = it.zeroVal(tt.At(i).Type())
		}
		return r
	}
	a := make(Agg, n)
	it.zeroInto(a, t)
	return a
}

func (it *Interp) newObject(t types.Type, nslots int, site string) *Object {
	it.nextObj++
	it.allocSlots += nslots
	if it.allocSlots > it.maxAllocSlots {
		it.endPath("memory budget of the engine exceeded ("+site+")", true)
	}
	o := &Object{ID: it.nextObj, Slots: make([]Val, nslots), T: t, Base: it.initPhase, Site: site}
	return o
}

func (it *Interp) allocType(t types.Type, site string) *Object {
	n := it.slotCount(t)
	o := it.newObject(t, n, site)
	it.zeroInto(o.Slots, t)
	return o
}

// allocArray allocates n elements of elem type.
func (it *Interp) allocArray(elem types.Type, n int, site string) *Object {
	es := it.slotCount(elem)
	o := it.newObject(types.NewArray(elem, int64(n)), es*n, site)
	if es == 1 {
		z := it.zeroScalar(elem)
		for i := range o.Slots {
			o.Slots[i] = z
		}
	} else {
		off := 0
		for i := 0; i < n; i++ {
			off += it.zeroInto(o.Slots[off:], elem)
		}
	}
	return o
}

type undo struct {
	obj *Object
	idx int
	old Val
	m   *MapObj
	mk  []Val
	mv  []Val
}

func (it *Interp) setSlot(o *Object, idx int, v Val) {
	if o.Released {
		it.violationNow("use-after-release", "store through a pool buffer after ReleaseBuffer ("+o.Site+")")
	}
	if o.Base && !it.initPhase {
		it.journal = append(it.journal, undo{obj: o, idx: idx, old: o.Slots[idx]})
	}
	if it.tracer != nil {
		it.tracer.access(o, idx, true)
	}
	o.Slots[idx] = v
}

func (it *Interp) getSlot(o *Object, idx int) Val {
	if o.Released {
		it.violationNow("use-after-release", "load through a pool buffer after ReleaseBuffer ("+o.Site+")")
	}
	if it.tracer != nil {
		it.tracer.access(o, idx, false)
	}
	return o.Slots[idx]
}

func (it *Interp) rollback() {
	for i := len(it.journal) - 1; i >= 0; i-- {
		u := it.journal[i]
		if u.m != nil {
			u.m.Keys, u.m.Vals = u.mk, u.mv
		} else {
			u.obj.Slots[u.idx] = u.old
		}
	}
	it.journal = it.journal[:0]
}

// loadAt reads a value of type t at (o, off).
func (it *Interp) loadAt(o *Object, off int, t types.Type) Val {
	n := it.slotCount(t)
	if off < 0 || off+n > len(o.Slots) {
		it.engineBug(fmt.Sprintf("load out of object: off %d n %d len %d (%s) type %s", off, n, len(o.Slots), o.Site, t))
	}
	if n == 1 {
		return it.getSlot(o, off)
	}
	a := make(Agg, n)
	for i := 0; i < n; i++ {
		a[i] = it.getSlot(o, off+i)
	}
	return a
}

func (it *Interp) storeAt(o *Object, off int, t types.Type, v Val) {
	n := it.slotCount(t)
	if off < 0 || off+n > len(o.Slots) {
		it.engineBug(fmt.Sprintf("store out of object: off %d n %d len %d (%s)", off, n, len(o.Slots), o.Site))
	}
	if n == 1 {
		it.setSlot(o, off, v)
		return
	}
	a, ok := v.(Agg)
	if !ok || len(a) != n {
		it.engineBug(fmt.Sprintf("store of %s: value %s does not have %d slots", t, describe(v), n))
	}
	for i := 0; i < n; i++ {
		it.setSlot(o, off+i, a[i])
	}
}

const iteLimit = 256

// load through a pointer.
func (it *Interp) load(p Ptr, t types.Type) Val {
	if p.Obj == nil {
		it.goPanic("runtime error: invalid memory address or nil pointer dereference")
	}
	if p.Sym == nil {
		return it.loadAt(p.Obj, p.Off, t)
	}
	p = it.narrowSym(p)
	if p.Sym == nil {
		return it.loadAt(p.Obj, p.Off, t)
	}
	n := it.slotCount(t)
	res := make([]Val, n)
	for k := 0; k < n; k++ {
		var acc Val
		for i := p.Sym.N - 1; i >= 0; i-- {
			v := it.getSlot(p.Obj, p.Off+i*p.Sym.Stride+k)
			if acc == nil {
				acc = v
				continue
			}
			cond := it.ctx.Eq(p.Sym.Idx, it.ctx.BV(64, uint64(i)))
			acc = it.iteVal(cond, v, acc)
		}
		res[k] = acc
	}
	if n == 1 {
		return res[0]
	}
	return Agg(res)
}

func (it *Interp) store(p Ptr, t types.Type, v Val) {
	if p.Obj == nil {
		it.goPanic("runtime error: invalid memory address or nil pointer dereference")
	}
	if p.Sym == nil {
		it.storeAt(p.Obj, p.Off, t, v)
		return
	}
	p = it.narrowSym(p)
	if p.Sym == nil {
		it.storeAt(p.Obj, p.Off, t, v)
		return
	}
	n := it.slotCount(t)
	var vs []Val
	if n == 1 {
		vs = []Val{v}
	} else {
		vs = v.(Agg)
	}
	for i := 0; i < p.Sym.N; i++ {
		cond := it.ctx.Eq(p.Sym.Idx, it.ctx.BV(64, uint64(i)))
		for k := 0; k < n; k++ {
			idx := p.Off + i*p.Sym.Stride + k
			old := it.getSlot(p.Obj, idx)
			it.setSlot(p.Obj, idx, it.iteVal(cond, vs[k], old))
		}
	}
}

// narrowSym concretises the symbolic index of p when the candidate range is too large for an ite chain.
func (it *Interp) narrowSym(p Ptr) Ptr {
	if p.Sym.N <= iteLimit {
		return p
	}
	v := it.concretize(Int{W: 64, T: p.Sym.Idx}, 16, "symbolic index into a large buffer")
	return Ptr{Obj: p.Obj, Off: p.Off + int(v)*p.Sym.Stride}
}

// iteVal builds "if cond then a else b" over scalar values.
func (it *Interp) iteVal(cond *sym.Term, a, b Val) Val {
	if cond.IsTrue() {
		return a
	}
	if cond.IsFalse() {
		return b
	}
	switch x := a.(type) {
	case Int:
		y, ok := b.(Int)
		if !ok {
			break
		}
		if x.T == nil && y.T == nil && x.C == y.C && x.W == y.W {
			return x
		}
		if x.W != y.W {
			break
		}
		return it.fromTerm(it.ctx.Ite(cond, it.term(x), it.term(y)))
	case Bool:
		y, ok := b.(Bool)
		if !ok {
			break
		}
		return it.fromBTerm(it.ctx.Ite(cond, it.bterm(x), it.bterm(y)))
	case Str:
		y, ok := b.(Str)
		if ok && x.B == nil && y.B == nil && x.S == y.S {
			return x
		}
		if ok && x.Len() == y.Len() {
			n := x.Len()
			out := make([]Val, n)
			for i := 0; i < n; i++ {
				out[i] = it.iteVal(cond, x.At(i), y.At(i))
			}
			return Str{B: out}
		}
	case Ptr:
		if y, ok := b.(Ptr); ok && x == y {
			return x
		}
	case Slice:
		if y, ok := b.(Slice); ok && x == y {
			return x
		}
	case nil:
		if b == nil {
			return nil
		}
	}
	// values that cannot be merged: decide the condition on this path (fork)
	if it.branch(cond) {
		return a
	}
	return b
}

func (s Str) Len() int {
	if s.B != nil {
		return len(s.B)
	}
	return len(s.S)
}

func (s Str) At(i int) Val {
	if s.B != nil {
		return s.B[i]
	}
	return Int{W: 8, C: uint64(s.S[i])}
}

func (s Str) IsConc() bool {
	if s.B == nil {
		return true
	}
	for _, b := range s.B {
		if b.(Int).T != nil {
			return false
		}
	}
	return true
}

func (s Str) Conc() string {
	if s.B == nil {
		return s.S
	}
	bs := make([]byte, len(s.B))
	for i, b := range s.B {
		bs[i] = byte(b.(Int).C)
	}
	return string(bs)
}

func normStr(s Str) Str {
	if s.B != nil && s.IsConc() {
		return Str{S: s.Conc()}
	}
	if s.B != nil && len(s.B) == 0 {
		return Str{}
	}
	return s
}

// sliceElems returns the element slots of a slice as values.
func (it *Interp) sliceVals(s Slice) []Val {
	if s.Obj == nil {
		return nil
	}
	out := make([]Val, s.Len*s.ES)
	for i := range out {
		out[i] = it.getSlot(s.Obj, s.Off+i)
	}
	return out
}

func (it *Interp) bytesToSlice(vals []Val, site string) Slice {
	o := it.newObject(types.NewArray(types.Typ[types.Uint8], int64(len(vals))), len(vals), site)
	copy(o.Slots, vals)
	return Slice{Obj: o, Len: len(vals), Cap: len(vals), ES: 1}
}

func (it *Interp) concBytes(b []byte, site string) Slice {
	vals := make([]Val, len(b))
	for i, x := range b {
		vals[i] = Int{W: 8, C: uint64(x)}
	}
	return it.bytesToSlice(vals, site)
}

// sliceConcBytes returns the bytes of a []byte slice if all are concrete.
func (it *Interp) sliceConcBytes(s Slice) ([]byte, bool) {
	out := make([]byte, s.Len)
	for i := 0; i < s.Len; i++ {
		v, ok := it.getSlot(s.Obj, s.Off+i).(Int)
		if !ok || v.T != nil {
			return nil, false
		}
		out[i] = byte(v.C)
	}
	return out, true
}

// slotName describes slot idx of object o as a field path of its type.
func (it *Interp) slotName(o *Object, idx int) string {
	if o.T == nil {
		return o.Site
	}
	return typeShort(o.T) + it.slotPath(o.T, idx)
}

func typeShort(t types.Type) string {
	return types.TypeString(t, func(p *types.Package) string { return p.Name() })
}

func (it *Interp) slotPath(t types.Type, idx int) string {
	switch u := t.Underlying().(type) {
	case *types.Struct:
		off := 0
		for i := 0; i < u.NumFields(); i++ {
			n := it.slotCount(u.Field(i).Type())
			if idx < off+n {
				return "." + u.Field(i).Name() + it.slotPath(u.Field(i).Type(), idx-off)
			}
			off += n
		}
	case *types.Array:
		es := it.slotCount(u.Elem())
		if es > 0 {
			return fmt.Sprintf("[%d]", idx/es) + it.slotPath(u.Elem(), idx%es)
		}
	}
	return ""
}
