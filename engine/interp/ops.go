package interp

import (
	"fmt"
	"go/token"
	"go/types"
	"math"
	"strings"
	"unicode/utf8"

	"golang.org/x/tools/go/ssa"

	"verif/engine/sym"
)

func fpSort(w uint8) (int, int) {
	if w == 32 {
		return 8, 24
	}
	return 11, 53
}

// fp converts a bit-pattern value to an SMT FloatingPoint term.
func (it *Interp) fp(i Int) *sym.Term {
	if i.T != nil && i.T.Op == "app:fp.to_ieee_bv" {
		return i.T.Args[0] // to_fp(to_ieee_bv(x)) = x (NaN payloads are not tracked through arithmetic)
	}
	eb, sb := fpSort(i.W)
	return it.ctx.App(fmt.Sprintf("(_ to_fp %d %d)", eb, sb), sym.Sort{K: sym.KBV, W: -int(i.W)}, it.term(i))
}

// fromFP converts an FP term back to its IEEE bit pattern.
func (it *Interp) fromFP(t *sym.Term, w uint8) Int {
	return it.fromTerm(it.ctx.App("fp.to_ieee_bv", sym.BVSort(int(w)), t))
}

// fpNeverNaN: the FP term is the conversion of an integer (or a widening of one), hence never NaN.
func fpNeverNaN(t *sym.Term) bool {
	if strings.HasPrefix(t.Op, "app:(_ to_fp_unsigned") {
		return true
	}
	if strings.HasPrefix(t.Op, "app:(_ to_fp") && strings.HasSuffix(t.Op, "RNE") && len(t.Args) == 1 {
		a := t.Args[0]
		if a.Sort.K == sym.KBV && a.Sort.W > 0 {
			return true // from a signed bit-vector
		}
		return fpNeverNaN(a) // float -> float conversion
	}
	return false
}

func (it *Interp) floatBin(op token.Token, a, b Int) Val {
	w := a.W
	if a.T == nil && b.T == nil {
		if w == 32 {
			x, y := math.Float32frombits(uint32(a.C)), math.Float32frombits(uint32(b.C))
			switch op {
			case token.ADD:
				return CInt(32, uint64(math.Float32bits(x+y)))
			case token.SUB:
				return CInt(32, uint64(math.Float32bits(x-y)))
			case token.MUL:
				return CInt(32, uint64(math.Float32bits(x*y)))
			case token.QUO:
				return CInt(32, uint64(math.Float32bits(x/y)))
			case token.EQL:
				return Bool{C: x == y}
			case token.NEQ:
				return Bool{C: x != y}
			case token.LSS:
				return Bool{C: x < y}
			case token.LEQ:
				return Bool{C: x <= y}
			case token.GTR:
				return Bool{C: x > y}
			case token.GEQ:
				return Bool{C: x >= y}
			}
		} else {
			x, y := math.Float64frombits(a.C), math.Float64frombits(b.C)
			switch op {
			case token.ADD:
				return CInt(64, math.Float64bits(x+y))
			case token.SUB:
				return CInt(64, math.Float64bits(x-y))
			case token.MUL:
				return CInt(64, math.Float64bits(x*y))
			case token.QUO:
				return CInt(64, math.Float64bits(x/y))
			case token.EQL:
				return Bool{C: x == y}
			case token.NEQ:
				return Bool{C: x != y}
			case token.LSS:
				return Bool{C: x < y}
			case token.LEQ:
				return Bool{C: x <= y}
			case token.GTR:
				return Bool{C: x > y}
			case token.GEQ:
				return Bool{C: x >= y}
			}
		}
		it.unsupported("float op " + op.String())
	}
	fs := sym.Sort{K: sym.KBV, W: -int(w)}
	x, y := it.fp(a), it.fp(b)
	if x == y && fpNeverNaN(x) {
		switch op {
		case token.EQL, token.LEQ, token.GEQ:
			return Bool{C: true}
		case token.NEQ, token.LSS, token.GTR:
			return Bool{C: false}
		}
	}
	switch op {
	case token.ADD:
		return it.fromFP(it.ctx.App("fp.add RNE", fs, x, y), w)
	case token.SUB:
		return it.fromFP(it.ctx.App("fp.sub RNE", fs, x, y), w)
	case token.MUL:
		return it.fromFP(it.ctx.App("fp.mul RNE", fs, x, y), w)
	case token.QUO:
		return it.fromFP(it.ctx.App("fp.div RNE", fs, x, y), w)
	case token.EQL:
		return it.fromBTerm(it.ctx.App("fp.eq", sym.BoolSort, x, y))
	case token.NEQ:
		return it.fromBTerm(it.ctx.Not(it.ctx.App("fp.eq", sym.BoolSort, x, y)))
	case token.LSS:
		return it.fromBTerm(it.ctx.App("fp.lt", sym.BoolSort, x, y))
	case token.LEQ:
		return it.fromBTerm(it.ctx.App("fp.leq", sym.BoolSort, x, y))
	case token.GTR:
		return it.fromBTerm(it.ctx.App("fp.gt", sym.BoolSort, x, y))
	case token.GEQ:
		return it.fromBTerm(it.ctx.App("fp.geq", sym.BoolSort, x, y))
	}
	it.unsupported("float op " + op.String())
	return nil
}

func (it *Interp) binop(op token.Token, a, b Val, ta, tb types.Type, instr ssa.Instruction) Val {
	switch x := a.(type) {
	case Int:
		y, ok := b.(Int)
		if !ok {
			it.engineBug("binop int with " + describe(b))
		}
		if isFloat(ta) {
			return it.floatBin(op, x, y)
		}
		return it.intBin(op, x, y, ta, tb, instr)
	case Bool:
		y := b.(Bool)
		switch op {
		case token.EQL:
			if x.T == nil && y.T == nil {
				return Bool{C: x.C == y.C}
			}
			return it.fromBTerm(it.ctx.Eq(it.bterm(x), it.bterm(y)))
		case token.NEQ:
			if x.T == nil && y.T == nil {
				return Bool{C: x.C != y.C}
			}
			return it.fromBTerm(it.ctx.Xor(it.bterm(x), it.bterm(y)))
		case token.AND, token.LAND:
			return it.fromBTerm(it.ctx.And(it.bterm(x), it.bterm(y)))
		case token.OR, token.LOR:
			return it.fromBTerm(it.ctx.Or(it.bterm(x), it.bterm(y)))
		}
	case Str:
		y := b.(Str)
		switch op {
		case token.ADD:
			if x.B == nil && y.B == nil {
				return Str{S: x.S + y.S}
			}
			out := make([]Val, 0, x.Len()+y.Len())
			for i := 0; i < x.Len(); i++ {
				out = append(out, x.At(i))
			}
			for i := 0; i < y.Len(); i++ {
				out = append(out, y.At(i))
			}
			return Str{B: out}
		case token.EQL:
			return it.strEq(x, y)
		case token.NEQ:
			return it.notB(it.strEq(x, y))
		case token.LSS, token.LEQ, token.GTR, token.GEQ:
			if x.IsConc() && y.IsConc() {
				xs, ys := x.Conc(), y.Conc()
				switch op {
				case token.LSS:
					return Bool{C: xs < ys}
				case token.LEQ:
					return Bool{C: xs <= ys}
				case token.GTR:
					return Bool{C: xs > ys}
				default:
					return Bool{C: xs >= ys}
				}
			}
			return it.strLess(op, x, y)
		}
	}
	switch op {
	case token.EQL:
		return it.valEq(a, b)
	case token.NEQ:
		return it.notB(it.valEq(a, b))
	}
	it.unsupported(fmt.Sprintf("binop %s on %s", op, describe(a)))
	return nil
}

func (it *Interp) strLess(op token.Token, x, y Str) Val {
	// lexicographic compare over symbolic bytes: build from the end
	c := it.ctx
	n, m := x.Len(), y.Len()
	k := n
	if m < k {
		k = m
	}
	// result when common prefix equal: compare lengths
	var lt, eq bool
	lt, eq = n < m, n == m
	less := c.Bool(lt)
	equal := c.Bool(eq)
	for i := k - 1; i >= 0; i-- {
		a, b := it.term(x.At(i).(Int)), it.term(y.At(i).(Int))
		e := c.Eq(a, b)
		less = c.Ite(e, less, c.Cmp("bvult", a, b))
		equal = c.And(e, equal)
	}
	switch op {
	case token.LSS:
		return it.fromBTerm(less)
	case token.LEQ:
		return it.fromBTerm(c.Or(less, equal))
	case token.GTR:
		return it.fromBTerm(c.Not(c.Or(less, equal)))
	}
	return it.fromBTerm(c.Not(less))
}

func (it *Interp) notB(v Val) Val {
	b := v.(Bool)
	if b.T == nil {
		return Bool{C: !b.C}
	}
	return it.fromBTerm(it.ctx.Not(b.T))
}

func (it *Interp) strEq(x, y Str) Bool {
	if x.Len() != y.Len() {
		return Bool{C: false}
	}
	if x.B == nil && y.B == nil {
		return Bool{C: x.S == y.S}
	}
	acc := it.ctx.True()
	for i := 0; i < x.Len(); i++ {
		a, b := x.At(i).(Int), y.At(i).(Int)
		if a.T == nil && b.T == nil {
			if a.C != b.C {
				return Bool{C: false}
			}
			continue
		}
		acc = it.ctx.And(acc, it.ctx.Eq(it.term(a), it.term(b)))
	}
	return it.fromBTerm(acc)
}

// valEq compares two values of the same static type.
func (it *Interp) valEq(a, b Val) Bool {
	switch x := a.(type) {
	case nil:
		return Bool{C: b == nil}
	case Int:
		y, ok := b.(Int)
		if !ok {
			return Bool{C: false}
		}
		if x.T == nil && y.T == nil {
			return Bool{C: x.C == y.C}
		}
		return it.fromBTerm(it.ctx.Eq(it.term(x), it.term(y)))
	case Bool:
		y, ok := b.(Bool)
		if !ok {
			return Bool{C: false}
		}
		return it.fromBTerm(it.ctx.Eq(it.bterm(x), it.bterm(y)))
	case Str:
		y, ok := b.(Str)
		if !ok {
			return Bool{C: false}
		}
		return it.strEq(x, y)
	case Ptr:
		y, ok := b.(Ptr)
		if !ok {
			return Bool{C: false}
		}
		if x.Sym != nil || y.Sym != nil {
			it.unsupported("comparison of symbolic pointers")
		}
		return Bool{C: x.Obj == y.Obj && (x.Obj == nil || x.Off == y.Off)}
	case Slice:
		y, ok := b.(Slice)
		if !ok {
			return Bool{C: false}
		}
		// only comparison with nil is legal
		return Bool{C: x.Obj == nil && y.Obj == nil}
	case *MapObj:
		y, _ := b.(*MapObj)
		return Bool{C: x == y}
	case *ChanObj:
		y, _ := b.(*ChanObj)
		return Bool{C: x == y}
	case Closure:
		y, _ := b.(Closure)
		return Bool{C: x.Fn == nil && x.Builtin == "" && y.Fn == nil && y.Builtin == ""}
	case Iface:
		y, ok := b.(Iface)
		if !ok {
			return Bool{C: false}
		}
		if x.T == nil || y.T == nil {
			return Bool{C: x.T == nil && y.T == nil}
		}
		if !types.Identical(x.T, y.T) {
			return Bool{C: false}
		}
		return it.valEq(x.V, y.V)
	case Agg:
		y, ok := b.(Agg)
		if !ok || len(x) != len(y) {
			return Bool{C: false}
		}
		acc := it.ctx.True()
		for i := range x {
			e := it.valEq(x[i], y[i])
			acc = it.ctx.And(acc, it.bterm(e))
		}
		return it.fromBTerm(acc)
	case *errObj:
		y, _ := b.(*errObj)
		return Bool{C: x == y}
	case *Opaque:
		y, _ := b.(*Opaque)
		return Bool{C: x == y}
	}
	it.unsupported("equality on " + describe(a))
	return Bool{}
}

func (it *Interp) intBin(op token.Token, x, y Int, ta, tb types.Type, instr ssa.Instruction) Val {
	w := x.W
	signed := isSigned(ta)
	c := it.ctx
	// shifts: y may have a different width
	if op == token.SHL || op == token.SHR {
		if y.T == nil {
			sh := y.C
			if isSigned(tb) && sext(y.C, y.W) < 0 {
				it.goPanic("runtime error: negative shift amount")
			}
			if x.T == nil {
				if op == token.SHL {
					if sh >= uint64(w) {
						return CInt(w, 0)
					}
					return CInt(w, x.C<<sh)
				}
				if signed {
					if sh >= uint64(w) {
						sh = uint64(w) - 1
					}
					return CInt(w, uint64(sext(x.C, w)>>sh))
				}
				if sh >= uint64(w) {
					return CInt(w, 0)
				}
				return CInt(w, x.C>>sh)
			}
			if sh > 255 {
				sh = 255
			}
			yt := c.BV(int(w), sh)
			switch {
			case op == token.SHL:
				return it.fromTerm(c.BVBin("bvshl", x.T, yt))
			case signed:
				return it.fromTerm(c.BVBin("bvashr", x.T, yt))
			default:
				return it.fromTerm(c.BVBin("bvlshr", x.T, yt))
			}
		}
		// a shift amount that is syntactically small (x & 3, a 2-bit field ...) is forked over its values: such shifts
		// compute field widths, and everything derived from them folds once the amount is concrete
		if bound, ok := smallBound(y.T); ok && bound <= 15 {
			yc := it.concretize(y, 16, "small shift amount")
			return it.intBin(op, x, CInt(y.W, yc), ta, tb, instr)
		}
		// symbolic shift amount: resize to w (saturating)
		var yt *sym.Term
		if y.W > w {
			big := c.Cmp("bvuge", y.T, c.BV(int(y.W), uint64(w)))
			yt = c.Ite(big, c.BV(int(w), uint64(w)), c.Extract(int(w)-1, 0, y.T))
		} else {
			yt = c.ZExt(int(w-y.W), y.T)
		}
		if isSigned(tb) {
			it.oblige(it.fromBTerm(c.Cmp("bvsge", y.T, c.BV(int(y.W), 0))), "shift-nonneg", "panic", "negative shift amount at "+pos(it.prog, instr.Pos()))
		}
		xt := it.term(x)
		switch {
		case op == token.SHL:
			return it.fromTerm(c.BVBin("bvshl", xt, yt))
		case signed:
			return it.fromTerm(c.BVBin("bvashr", xt, yt))
		default:
			return it.fromTerm(c.BVBin("bvlshr", xt, yt))
		}
	}
	if x.W != y.W {
		it.engineBug(fmt.Sprintf("binop %s width mismatch %d %d", op, x.W, y.W))
	}
	xt, yt := it.term(x), it.term(y)
	switch op {
	case token.ADD:
		return it.fromTerm(c.BVBin("bvadd", xt, yt))
	case token.SUB:
		return it.fromTerm(c.BVBin("bvsub", xt, yt))
	case token.MUL:
		return it.fromTerm(c.BVBin("bvmul", xt, yt))
	case token.QUO, token.REM:
		if y.T == nil {
			if y.C == 0 {
				it.goPanic("runtime error: integer divide by zero")
			}
		} else {
			it.oblige(it.fromBTerm(c.Not(c.Eq(yt, c.BV(int(w), 0)))), "div-nonzero", "div", "integer divide by zero at "+pos(it.prog, instr.Pos()))
		}
		name := "bvudiv"
		if op == token.REM {
			name = "bvurem"
		}
		if signed {
			name = "bvsdiv"
			if op == token.REM {
				name = "bvsrem"
			}
		}
		return it.fromTerm(c.BVBin(name, xt, yt))
	case token.AND:
		return it.fromTerm(c.BVBin("bvand", xt, yt))
	case token.OR:
		return it.fromTerm(c.BVBin("bvor", xt, yt))
	case token.XOR:
		return it.fromTerm(c.BVBin("bvxor", xt, yt))
	case token.AND_NOT:
		return it.fromTerm(c.BVBin("bvand", xt, c.BVNot(yt)))
	case token.EQL:
		return it.fromBTerm(c.Eq(xt, yt))
	case token.NEQ:
		return it.fromBTerm(c.Not(c.Eq(xt, yt)))
	case token.LSS, token.LEQ, token.GTR, token.GEQ:
		name := map[token.Token]string{token.LSS: "lt", token.LEQ: "le", token.GTR: "gt", token.GEQ: "ge"}[op]
		if signed {
			name = "bvs" + name
		} else {
			name = "bvu" + name
		}
		return it.fromBTerm(c.Cmp(name, xt, yt))
	}
	it.unsupported("int binop " + op.String())
	return nil
}

func (it *Interp) unop(fr *frameState, x *ssa.UnOp) Val {
	v := it.get(fr, x.X)
	switch x.Op {
	case token.MUL: // load
		p, ok := v.(Ptr)
		if !ok {
			it.engineBug("load through " + describe(v))
		}
		return it.load(p, derefType(x.X.Type()))
	case token.NOT:
		return it.notB(v)
	case token.SUB:
		i := v.(Int)
		if isFloat(x.X.Type()) {
			// flip sign bit
			if i.T == nil {
				return CInt(i.W, i.C^(uint64(1)<<(i.W-1)))
			}
			return it.fromTerm(it.ctx.BVBin("bvxor", i.T, it.ctx.BV(int(i.W), uint64(1)<<(i.W-1))))
		}
		if i.T == nil {
			return CInt(i.W, -i.C)
		}
		return it.fromTerm(it.ctx.BVNeg(i.T))
	case token.XOR:
		i := v.(Int)
		if i.T == nil {
			return CInt(i.W, ^i.C)
		}
		return it.fromTerm(it.ctx.BVNot(i.T))
	case token.ARROW:
		return it.chanRecv(v.(*ChanObj), x.CommaOk, x.Type())
	}
	it.unsupported("unop " + x.Op.String())
	return nil
}

func (it *Interp) convert(v Val, from, to types.Type) Val {
	fu, tu := from.Underlying(), to.Underlying()
	switch t := tu.(type) {
	case *types.Basic:
		switch {
		case t.Info()&types.IsInteger != 0:
			i, ok := v.(Int)
			if !ok {
				if p, isP := v.(Ptr); isP && t.Kind() == types.Uintptr {
					_ = p
					it.unsupported("pointer to uintptr conversion")
				}
				it.engineBug("convert to int from " + describe(v))
			}
			tw := basicWidth(t)
			if isFloat(from) {
				return it.floatToInt(i, tw, isSigned(to))
			}
			return it.resize(i, tw, isSigned(from))
		case t.Info()&types.IsFloat != 0:
			i := v.(Int)
			tw := basicWidth(t)
			if isFloat(from) {
				return it.floatToFloat(i, tw)
			}
			return it.intToFloat(i, tw, isSigned(from))
		case t.Info()&types.IsString != 0:
			switch x := v.(type) {
			case Str:
				return x
			case Slice: // []byte or []rune
				if st, ok := fu.(*types.Slice); ok {
					if b, ok := st.Elem().Underlying().(*types.Basic); ok && b.Kind() == types.Uint8 {
						vals := it.sliceVals(x)
						return normStr(Str{B: append([]Val{}, vals...)})
					}
					// []rune
					var sb strings.Builder
					for _, r := range it.sliceVals(x) {
						ri := r.(Int)
						if ri.T != nil {
							it.unsupported("symbolic rune to string")
						}
						sb.WriteRune(rune(sext(ri.C, 32)))
					}
					return Str{S: sb.String()}
				}
			case Int:
				if x.T != nil {
					it.unsupported("symbolic rune to string")
				}
				return Str{S: string(rune(sext(x.C, x.W)))}
			}
		case t.Kind() == types.UnsafePointer:
			return v
		case t.Info()&types.IsBoolean != 0:
			return v
		}
	case *types.Slice:
		if s, ok := v.(Str); ok {
			if b, ok := t.Elem().Underlying().(*types.Basic); ok && b.Kind() == types.Uint8 {
				vals := make([]Val, s.Len())
				for i := range vals {
					vals[i] = s.At(i)
				}
				return it.bytesToSlice(vals, "[]byte(string)")
			}
			// []rune
			if !s.IsConc() {
				it.unsupported("symbolic string to []rune")
			}
			var vals []Val
			for _, r := range s.Conc() {
				vals = append(vals, CInt(32, uint64(uint32(r))))
			}
			o := it.newObject(types.NewArray(t.Elem(), int64(len(vals))), len(vals), "[]rune(string)")
			copy(o.Slots, vals)
			return Slice{Obj: o, Len: len(vals), Cap: len(vals), ES: 1}
		}
		return v
	case *types.Pointer:
		return v
	}
	if types.Identical(fu, tu) {
		return v
	}
	it.unsupported(fmt.Sprintf("conversion %s -> %s", from, to))
	return nil
}

func (it *Interp) resize(i Int, tw uint8, fromSigned bool) Int {
	if i.W == tw {
		return i
	}
	if i.T == nil {
		if tw < i.W {
			return CInt(tw, i.C)
		}
		if fromSigned {
			return CInt(tw, uint64(sext(i.C, i.W)))
		}
		return CInt(tw, i.C)
	}
	if tw < i.W {
		return it.fromTerm(it.ctx.Extract(int(tw)-1, 0, i.T))
	}
	if fromSigned {
		return it.fromTerm(it.ctx.SExt(int(tw-i.W), i.T))
	}
	return it.fromTerm(it.ctx.ZExt(int(tw-i.W), i.T))
}

func (it *Interp) intToFloat(i Int, tw uint8, signed bool) Int {
	if i.T == nil {
		var f float64
		if signed {
			f = float64(sext(i.C, i.W))
			if tw == 32 {
				return CInt(32, uint64(math.Float32bits(float32(sext(i.C, i.W)))))
			}
		} else {
			f = float64(i.C)
			if tw == 32 {
				return CInt(32, uint64(math.Float32bits(float32(i.C))))
			}
		}
		return CInt(64, math.Float64bits(f))
	}
	eb, sb := fpSort(tw)
	op := fmt.Sprintf("(_ to_fp_unsigned %d %d) RNE", eb, sb)
	if signed {
		op = fmt.Sprintf("(_ to_fp %d %d) RNE", eb, sb)
	}
	return it.fromFP(it.ctx.App(op, sym.Sort{K: sym.KBV, W: -int(tw)}, i.T), tw)
}

func (it *Interp) floatToFloat(i Int, tw uint8) Int {
	if i.W == tw {
		return i
	}
	if i.T == nil {
		if tw == 32 {
			return CInt(32, uint64(math.Float32bits(float32(math.Float64frombits(i.C)))))
		}
		return CInt(64, math.Float64bits(float64(math.Float32frombits(uint32(i.C)))))
	}
	// bit-level widening when the float32 exponent field is a constant of a normal number
	if tw == 64 {
		e := it.ctx.Extract(30, 23, i.T)
		if e.IsConst && e.C != 0 && e.C != 255 {
			c := it.ctx
			hi := c.Concat(c.Extract(31, 31, i.T), c.BV(11, e.C+896))
			return it.fromTerm(c.Concat(c.Concat(hi, c.Extract(22, 0, i.T)), c.BV(29, 0)))
		}
		if e.IsConst && e.C == 255 {
			c := it.ctx
			hi := c.Concat(c.Extract(31, 31, i.T), c.BV(11, 2047))
			return it.fromTerm(c.Concat(c.Concat(hi, c.Extract(22, 0, i.T)), c.BV(29, 0)))
		}
		if e.IsConst && e.C == 0 {
			// zero / subnormal float32: normalise with a priority encoder over the 23 mantissa bits
			c := it.ctx
			sign := c.BVBin("bvshl", c.ZExt(63, c.Extract(31, 31, i.T)), c.BV(64, 63))
			m := c.ZExt(41, c.Extract(22, 0, i.T))
			acc := sign // mantissa == 0
			for p := 0; p <= 22; p++ {
				bit := c.Eq(c.Extract(p, p, i.T), c.BV(1, 1))
				frac := c.BVBin("bvand", c.BVBin("bvshl", m, c.BV(64, uint64(52-p))), c.BV(64, (uint64(1)<<52)-1))
				v := c.BVBin("bvor", sign, c.BVBin("bvor", c.BV(64, uint64(1023-149+p)<<52), frac))
				acc = c.Ite(bit, v, acc)
			}
			return it.fromTerm(acc)
		}
	}
	eb, sb := fpSort(tw)
	return it.fromFP(it.ctx.App(fmt.Sprintf("(_ to_fp %d %d) RNE", eb, sb), sym.Sort{K: sym.KBV, W: -int(tw)}, it.fp(i)), tw)
}

func (it *Interp) floatToInt(i Int, tw uint8, signed bool) Int {
	if i.T == nil {
		var f float64
		if i.W == 32 {
			f = float64(math.Float32frombits(uint32(i.C)))
		} else {
			f = math.Float64frombits(i.C)
		}
		if signed {
			return CInt(tw, uint64(int64(f)))
		}
		if f < 0 {
			return CInt(tw, uint64(int64(f)))
		}
		return CInt(tw, uint64(f))
	}
	// in-range conversions only; out-of-range is implementation defined in Go: flagged as incomplete
	op := fmt.Sprintf("(_ fp.to_ubv %d) RTZ", tw)
	if signed {
		op = fmt.Sprintf("(_ fp.to_sbv %d) RTZ", tw)
	}
	x := it.fp(i)
	// range check: |x| < 2^(tw-1) (signed) or 0 <= x < 2^tw (unsigned); NaN excluded
	eb, sb := fpSort(i.W)
	lim := math.Ldexp(1, int(tw))
	lo := 0.0
	if signed {
		lim = math.Ldexp(1, int(tw)-1)
		lo = -lim
	}
	mk := func(f float64) *sym.Term {
		var bits uint64
		if i.W == 32 {
			bits = uint64(math.Float32bits(float32(f)))
		} else {
			bits = math.Float64bits(f)
		}
		return it.ctx.App(fmt.Sprintf("(_ to_fp %d %d)", eb, sb), sym.Sort{K: sym.KBV, W: -int(i.W)}, it.ctx.BV(int(i.W), bits))
	}
	var inRange *sym.Term
	if signed {
		inRange = it.ctx.And(it.ctx.App("fp.geq", sym.BoolSort, x, mk(lo)), it.ctx.App("fp.lt", sym.BoolSort, x, mk(lim)))
	} else {
		inRange = it.ctx.And(it.ctx.App("fp.gt", sym.BoolSort, x, mk(-1)), it.ctx.App("fp.lt", sym.BoolSort, x, mk(lim)))
	}
	if !it.branch(inRange) {
		it.noteIncomplete("float to integer conversion of an out-of-range value (implementation defined) not interpreted")
		it.endPath("implementation-defined float->int conversion", false)
	}
	return it.fromTerm(it.ctx.App(op, sym.BVSort(int(tw)), x))
}

// ---- builtins ----

func (it *Interp) builtin(name string, args []Val, c *ssa.CallCommon) Val {
	switch name {
	case "len":
		switch x := args[0].(type) {
		case Slice:
			return CInt(64, uint64(x.Len))
		case Str:
			return CInt(64, uint64(x.Len()))
		case *MapObj:
			if x == nil {
				return CInt(64, 0)
			}
			return CInt(64, uint64(len(x.Keys)))
		case *ChanObj:
			if x == nil {
				return CInt(64, 0)
			}
			return CInt(64, uint64(len(x.Buf)))
		case Ptr:
			at := derefType(c.Args[0].Type()).Underlying().(*types.Array)
			return CInt(64, uint64(at.Len()))
		default:
			if at, ok := c.Args[0].Type().Underlying().(*types.Array); ok {
				return CInt(64, uint64(at.Len()))
			}
		}
	case "cap":
		switch x := args[0].(type) {
		case Slice:
			return CInt(64, uint64(x.Cap))
		case *ChanObj:
			return CInt(64, uint64(x.Cap))
		case Ptr:
			at := derefType(c.Args[0].Type()).Underlying().(*types.Array)
			return CInt(64, uint64(at.Len()))
		}
	case "append":
		s := args[0].(Slice)
		var add []Val
		es := s.ES
		var elemT types.Type
		if st, ok := c.Args[0].Type().Underlying().(*types.Slice); ok {
			elemT = st.Elem()
			es = it.slotCount(elemT)
		}
		switch y := args[1].(type) {
		case Slice:
			add = it.sliceVals(y)
		case Str:
			for i := 0; i < y.Len(); i++ {
				add = append(add, y.At(i))
			}
		}
		if es == 0 {
			n := 0
			if y, ok := args[1].(Slice); ok {
				n = y.Len
			}
			return Slice{Obj: s.Obj, Off: s.Off, Len: s.Len + n, Cap: s.Len + n, ES: 0}
		}
		nadd := len(add) / es
		if nadd == 0 {
			return Slice{Obj: s.Obj, Off: s.Off, Len: s.Len, Cap: s.Cap, ES: es}
		}
		if s.Obj != nil && s.Len+nadd <= s.Cap {
			for i, v := range add {
				it.setSlot(s.Obj, s.Off+s.Len*es+i, v)
			}
			return Slice{Obj: s.Obj, Off: s.Off, Len: s.Len + nadd, Cap: s.Cap, ES: es}
		}
		newLen := s.Len + nadd
		newCap := growCap(s.Cap, newLen)
		o := it.allocArray(elemT, newCap, "append")
		for i := 0; i < s.Len*es; i++ {
			o.Slots[i] = it.getSlot(s.Obj, s.Off+i)
		}
		copy(o.Slots[s.Len*es:], add)
		return Slice{Obj: o, Len: newLen, Cap: newCap, ES: es}
	case "copy":
		d := args[0].(Slice)
		var src []Val
		switch y := args[1].(type) {
		case Slice:
			src = it.sliceVals(y)
		case Str:
			for i := 0; i < y.Len(); i++ {
				src = append(src, y.At(i))
			}
		}
		es := d.ES
		if es == 0 {
			return CInt(64, 0)
		}
		n := len(src) / es
		if d.Len < n {
			n = d.Len
		}
		for i := 0; i < n*es; i++ {
			it.setSlot(d.Obj, d.Off+i, src[i])
		}
		return CInt(64, uint64(n))
	case "delete":
		m := args[0].(*MapObj)
		it.mapDelete(m, args[1])
		return nil
	case "print", "println":
		return nil
	case "recover":
		if n := len(it.panicking); n > 0 {
			fr := it.panicking[n-1]
			if fr.panicV != nil {
				v := fr.panicV.v
				fr.panicV = nil
				return v
			}
		}
		return Iface{}
	case "min", "max":
		acc := args[0]
		t := c.Args[0].Type()
		for _, a := range args[1:] {
			tok := token.LSS
			if name == "max" {
				tok = token.GTR
			}
			lt := it.binop(tok, a, acc, t, t, nil).(Bool)
			if lt.T == nil {
				if lt.C {
					acc = a
				}
			} else {
				acc = it.iteVal(lt.T, a, acc)
			}
		}
		return acc
	case "clear":
		switch x := args[0].(type) {
		case *MapObj:
			it.mapJournal(x)
			x.Keys, x.Vals = nil, nil
		case Slice:
			st := c.Args[0].Type().Underlying().(*types.Slice)
			for i := 0; i < x.Len; i++ {
				it.storeAt(x.Obj, x.Off+i*x.ES, st.Elem(), it.zeroVal(st.Elem()))
			}
		}
		return nil
	case "close":
		ch := args[0].(*ChanObj)
		it.chanClose(ch)
		return nil
	case "SliceData":
		sl := args[0].(Slice)
		if sl.Obj == nil {
			return Ptr{}
		}
		return Ptr{Obj: sl.Obj, Off: sl.Off}
	case "StringData":
		st := args[0].(Str)
		vals := make([]Val, st.Len())
		for i := range vals {
			vals[i] = st.At(i)
		}
		b := it.bytesToSlice(vals, "unsafe.StringData")
		return Ptr{Obj: b.Obj}
	case "String":
		p := args[0].(Ptr)
		n := int(args[1].(Int).C)
		if n == 0 || p.Obj == nil {
			return Str{}
		}
		vals := make([]Val, n)
		for i := range vals {
			vals[i] = it.getSlot(p.Obj, p.Off+i)
		}
		return normStr(Str{B: vals})
	case "Slice":
		p := args[0].(Ptr)
		n := int(args[1].(Int).C)
		if p.Obj == nil {
			return Slice{ES: 1}
		}
		return Slice{Obj: p.Obj, Off: p.Off, Len: n, Cap: n, ES: 1}
	case "ssa:wrapnilchk":
		p := args[0]
		if pp, ok := p.(Ptr); ok && pp.Obj == nil {
			it.goPanic("value method called using nil pointer")
		}
		return p
	}
	it.unsupported("builtin " + name)
	return nil
}

func growCap(oldCap, newLen int) int {
	newcap := oldCap
	doublecap := newcap + newcap
	if newLen > doublecap {
		return newLen
	}
	const threshold = 256
	if oldCap < threshold {
		if doublecap < 8 && newLen <= 8 {
			return 8
		}
		return doublecap
	}
	for newcap < newLen {
		newcap += (newcap + 3*threshold) >> 2
	}
	return newcap
}

// ---- maps ----

func (it *Interp) mapJournal(m *MapObj) {
	if m.Base && !it.initPhase {
		it.journal = append(it.journal, undo{m: m, mk: append([]Val(nil), m.Keys...), mv: append([]Val(nil), m.Vals...)})
	}
}

// mapFind returns the index of key (deciding symbolic equalities on this path) or -1.
func (it *Interp) mapFind(m *MapObj, key Val) int {
	if m == nil {
		return -1
	}
	for i, k := range m.Keys {
		e := it.valEq(k, key)
		if e.T == nil {
			if e.C {
				return i
			}
			continue
		}
		if it.branch(e.T) {
			return i
		}
	}
	return -1
}

func (it *Interp) mapUpdate(m *MapObj, k, v Val) {
	if m == nil {
		it.goPanic("assignment to entry in nil map")
	}
	it.mapJournal(m)
	if i := it.mapFind(m, k); i >= 0 {
		m.Vals = append([]Val(nil), m.Vals...)
		m.Vals[i] = v
		return
	}
	m.Keys = append(m.Keys[:len(m.Keys):len(m.Keys)], k)
	m.Vals = append(m.Vals[:len(m.Vals):len(m.Vals)], v)
}

func (it *Interp) mapDelete(m *MapObj, k Val) {
	if m == nil {
		return
	}
	if i := it.mapFind(m, k); i >= 0 {
		it.mapJournal(m)
		nk := append([]Val(nil), m.Keys[:i]...)
		nk = append(nk, m.Keys[i+1:]...)
		nv := append([]Val(nil), m.Vals[:i]...)
		nv = append(nv, m.Vals[i+1:]...)
		m.Keys, m.Vals = nk, nv
	}
}

func (it *Interp) lookup(fr *frameState, x *ssa.Lookup) Val {
	base := it.get(fr, x.X)
	key := it.get(fr, x.Index)
	switch b := base.(type) {
	case Str:
		idx := it.widenIndex(key.(Int), x.Index.Type())
		if idx.T == nil {
			if idx.C >= uint64(b.Len()) {
				it.goPanic("runtime error: index out of range")
			}
			return b.At(int(idx.C))
		}
		it.boundsCheck(idx, b.Len(), x.Pos())
		var acc Val
		for i := b.Len() - 1; i >= 0; i-- {
			if acc == nil {
				acc = b.At(i)
				continue
			}
			acc = it.iteVal(it.ctx.Eq(idx.T, it.ctx.BV(64, uint64(i))), b.At(i), acc)
		}
		return acc
	case *MapObj:
		mt := x.X.Type().Underlying().(*types.Map)
		i := it.mapFind(b, key)
		var v Val
		if i >= 0 {
			v = b.Vals[i]
		} else {
			v = it.zeroVal(mt.Elem())
		}
		if x.CommaOk {
			return Tuple{v, Bool{C: i >= 0}}
		}
		return v
	}
	it.engineBug("lookup on " + describe(base))
	return nil
}

// ---- range ----

type rangeIter struct {
	m    *MapObj
	keys []Val
	vals []Val
	s    Str
	pos  int
}

func (it *Interp) rangeInit(v Val, t types.Type) Val {
	switch x := v.(type) {
	case *MapObj:
		if x == nil {
			return &rangeIter{}
		}
		return &rangeIter{m: x, keys: append([]Val(nil), x.Keys...), vals: append([]Val(nil), x.Vals...)}
	case Str:
		return &rangeIter{s: x}
	}
	it.unsupported("range over " + t.String())
	return nil
}

func (it *Interp) rangeNext(r *rangeIter, n *ssa.Next) Val {
	if n.IsString {
		if r.pos >= r.s.Len() {
			return Tuple{Bool{C: false}, CInt(64, 0), CInt(32, 0)}
		}
		if !r.s.IsConc() {
			// decode symbolic bytes as single-byte runes when < 0x80, otherwise unsupported
			b := r.s.At(r.pos).(Int)
			if b.T != nil {
				if !it.branch(it.ctx.Cmp("bvult", b.T, it.ctx.BV(8, 0x80))) {
					it.unsupported("range over string with symbolic multi-byte rune")
				}
			} else if b.C >= 0x80 {
				it.unsupported("range over partly symbolic multi-byte string")
			}
			i := r.pos
			r.pos++
			return Tuple{Bool{C: true}, CInt(64, uint64(i)), it.resize(b, 32, false)}
		}
		s := r.s.Conc()
		ru, size := utf8.DecodeRuneInString(s[r.pos:])
		i := r.pos
		r.pos += size
		return Tuple{Bool{C: true}, CInt(64, uint64(i)), CInt(32, uint64(uint32(ru)))}
	}
	mt := n.Iter.(*ssa.Range).X.Type().Underlying().(*types.Map)
	for r.pos < len(r.keys) {
		k, v := r.keys[r.pos], r.vals[r.pos]
		r.pos++
		// skip entries deleted during iteration
		if r.m != nil {
			live := false
			for j, kk := range r.m.Keys {
				if e := it.valEq(kk, k); e.T == nil && e.C {
					live = true
					v = r.m.Vals[j]
					break
				}
			}
			if !live {
				continue
			}
		}
		return Tuple{Bool{C: true}, k, v}
	}
	return Tuple{Bool{C: false}, it.zeroVal(mt.Key()), it.zeroVal(mt.Elem())}
}

// smallBound: a syntactic upper bound of a bit-vector term (masks with constants, zero extensions, narrow terms).
func smallBound(t *sym.Term) (uint64, bool) {
	if t.IsConst {
		return t.C, true
	}
	switch t.Op {
	case "bvand":
		for _, a := range t.Args {
			if a.IsConst {
				return a.C, true
			}
		}
	case "zext":
		return smallBound(t.Args[0])
	}
	if t.Sort.K == sym.KBV && t.Sort.W > 0 && t.Sort.W <= 4 {
		return uint64(1)<<uint(t.Sort.W) - 1, true
	}
	return 0, false
}
