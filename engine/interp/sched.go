package interp

import (
	"fmt"
	"strings"

	"golang.org/x/tools/go/ssa"

	"verif/engine/sym"
)

// Schedule mode (harness names containing "_sched"): goroutines of the program under test are
// simulated threads with real blocking semantics. Exactly one simulated thread runs at a time
// (each on its own Go goroutine, the baton is passed explicitly). A thread runs until it
// blocks (mutex held, empty channel, WaitGroup counter > 0, select without ready case),
// finishes, sleeps, or reaches a vrt.SchedPoint where the solver-visible decision input says
// "the others first". Whenever several threads can run, the next one is a decision of the
// exploration (all alternatives are explored); select statements with several ready cases
// fork as before; time.Ticker channels may deliver while their budget lasts.
//
// Everything is still recorded in the per-thread event lists, so the data-race schedule
// queries of cmd/hv/race.go run over every explored path.

type lockKey struct{ obj, off int }

type lockState struct {
	writer  int // thread id + 1
	readers int
}

type simThread struct {
	id        int
	name      string
	wake      chan struct{}
	started   bool
	done      bool
	blocked   func() bool
	why       string
	quiesce   int  // > 0: sleeping until every non-sleeping thread is blocked or done (wake order = sleep order)
	onTicker  bool // blocked in a receive/select that names a ticker whose budget is used up
	curFn     []*ssa.Function
	depth     int
	panicking []*frameState
	fn        Val
	args      []Val
	call      *ssa.CallCommon
}

type threadKill struct{}

type scheduler struct {
	threads []*simThread
	cur     int
	abort   bool
	pending interface{}
	killed  chan struct{}
	locks   map[lockKey]*lockState
	wgs     map[lockKey]int
	qseq    int
}

func newScheduler() *scheduler {
	s := &scheduler{killed: make(chan struct{}), locks: map[lockKey]*lockState{}, wgs: map[lockKey]int{}}
	s.threads = []*simThread{{id: 0, name: "main", started: true, wake: make(chan struct{})}}
	return s
}

func (s *scheduler) runnable(t *simThread) bool {
	if t.done {
		return false
	}
	if t.quiesce > 0 {
		// a sleeper wakes when nobody awake can run and it is the earliest sleeper
		for _, o := range s.threads {
			if o == nil || o.done || o == t {
				continue
			}
			if o.quiesce > 0 {
				if o.quiesce < t.quiesce {
					return false
				}
				continue
			}
			if o.blocked == nil || !o.blocked() {
				return false
			}
		}
		return true
	}
	return t.blocked == nil || !t.blocked()
}

func (s *scheduler) othersRunnable(self int) bool {
	for _, t := range s.threads {
		if t != nil && t.id != self && t.quiesce == 0 && s.runnable(t) {
			return true
		}
	}
	return false
}

func (it *Interp) schedSpawn(fnv Val, args []Val, c *ssa.CallCommon, tid int, name string) {
	s := it.sched
	for len(s.threads) <= tid {
		s.threads = append(s.threads, nil)
	}
	s.threads[tid] = &simThread{id: tid, name: name, wake: make(chan struct{}), fn: fnv, args: args, call: c, curFn: make([]*ssa.Function, 0, 64)}
}

// schedBlock parks the current thread while pred() holds.
func (it *Interp) schedBlock(why string, pred func() bool) {
	s := it.sched
	t := s.threads[s.cur]
	for pred() {
		t.blocked, t.why = pred, why
		it.schedPick(false)
	}
	t.blocked, t.why, t.onTicker = nil, "", false
}

// schedQuiesce lets every other thread run until none of them can continue.
func (it *Interp) schedQuiesce(why string) {
	s := it.sched
	t := s.threads[s.cur]
	if !s.othersRunnable(t.id) {
		return
	}
	s.qseq++
	t.quiesce, t.why = s.qseq, why
	for {
		it.schedPick(false)
		if s.runnable(t) {
			break
		}
	}
	t.quiesce, t.why = 0, ""
}

func (it *Interp) schedPick(exiting bool) {
	s := it.sched
	var cand []int
	for _, t := range s.threads {
		if t != nil && s.runnable(t) {
			cand = append(cand, t.id)
		}
	}
	if len(cand) == 0 {
		it.schedStuck()
		return
	}
	k := cand[0]
	if len(cand) > 1 {
		v := it.ctx.Fresh("sched", sym.BVSort(8))
		conds := make([]*sym.Term, len(cand))
		for i := range conds {
			conds[i] = it.ctx.Eq(v, it.ctx.BV(8, uint64(i)))
		}
		k = cand[it.choose(conds, false)]
	}
	if k == s.cur {
		return
	}
	it.schedSwitch(k, exiting)
}

// schedStuck: no thread can run. Thread 0 is never done while the scheduler lives, so it is blocked.
func (it *Interp) schedStuck() {
	s := it.sched
	var desc []string
	ticker := false
	for _, t := range s.threads {
		if t == nil || t.done {
			continue
		}
		desc = append(desc, fmt.Sprintf("%s: %s", t.name, t.why))
		if t.onTicker {
			ticker = true
		}
	}
	if ticker {
		// a thread waits for a tick beyond the tick budget: outside the bound, not a deadlock
		it.res.Bounds["ticks per ticker"] = tickBudget
		it.endPath("tick budget used up", false)
	}
	it.violationNow("no-deadlock", "all goroutines are blocked: "+strings.Join(desc, "; "))
	it.endPath("deadlock", false)
}

func (it *Interp) schedSwitch(to int, exiting bool) {
	s := it.sched
	from := s.threads[s.cur]
	from.curFn, from.depth, from.panicking = it.curFn, it.depth, it.panicking
	it.schedActivate(to)
	if exiting {
		return
	}
	it.schedPark(from)
}

func (it *Interp) schedActivate(to int) {
	s := it.sched
	t := s.threads[to]
	s.cur = to
	it.tracer.cur = to
	it.curFn, it.depth, it.panicking = t.curFn, t.depth, t.panicking
	if !t.started {
		t.started = true
		go it.threadMain(t)
	} else {
		t.wake <- struct{}{}
	}
}

func (it *Interp) schedPark(t *simThread) {
	<-t.wake
	s := it.sched
	if t.id != 0 && s.abort {
		panic(threadKill{})
	}
	if t.id == 0 && s.pending != nil {
		p := s.pending
		s.pending = nil
		panic(p)
	}
}

func (it *Interp) threadMain(t *simThread) {
	s := it.sched
	defer func() {
		r := recover()
		if r == nil {
			return
		}
		if _, ok := r.(threadKill); ok {
			s.killed <- struct{}{}
			return
		}
		t.done = true
		if gp, ok := r.(*goPanicVal); ok {
			// an unrecovered panic in any goroutine ends the process
			func() {
				defer func() {
					if r2 := recover(); r2 != nil {
						if _, ok := r2.(*pathEnd); !ok {
							r = r2
						}
					}
				}()
				it.recordPanic(gp, gp.msg)
			}()
			if _, still := r.(*goPanicVal); still {
				r = &pathEnd{reason: "panic: " + gp.msg}
			}
		}
		s.pending = r
		t0 := s.threads[0]
		s.cur = 0
		it.tracer.cur = 0
		it.curFn, it.depth, it.panicking = t0.curFn, t0.depth, t0.panicking
		t0.wake <- struct{}{}
	}()
	it.callValue(t.fn, t.args, t.call)
	it.tracer.add(Event{Kind: "end"})
	t.done = true
	it.schedPick(true)
}

// schedKillAll unwinds every parked thread at the end of a path (called on thread 0).
func (it *Interp) schedKillAll() {
	s := it.sched
	if s == nil {
		return
	}
	s.abort = true
	for _, t := range s.threads[1:] {
		if t != nil && t.started && !t.done {
			it.curFn, it.depth, it.panicking = t.curFn, t.depth, t.panicking
			t.wake <- struct{}{}
			<-s.killed
		}
	}
	it.sched = nil
}

// ---- primitives ----

func (it *Interp) schedLock(name string, p Ptr) Val {
	s := it.sched
	k := lockKey{p.Obj.ID, p.Off}
	st := s.locks[k]
	if st == nil {
		st = &lockState{}
		s.locks[k] = st
	}
	switch name {
	case "Mutex.Lock", "RWMutex.Lock":
		it.schedBlock(name+" in "+it.where(), func() bool { return st.writer != 0 || st.readers > 0 })
		st.writer = s.cur + 1
	case "RWMutex.RLock":
		it.schedBlock(name+" in "+it.where(), func() bool { return st.writer != 0 })
		st.readers++
	case "Mutex.TryLock":
		if st.writer != 0 || st.readers > 0 {
			return Bool{C: false}
		}
		st.writer = s.cur + 1
		it.lockEvent(name, p)
		return Bool{C: true}
	case "Mutex.Unlock", "RWMutex.Unlock":
		if st.writer == 0 {
			it.violationNow("no-panic", "fatal error: sync: unlock of unlocked mutex in "+it.where())
			it.endPath("fatal", false)
		}
		it.lockEvent(name, p)
		st.writer = 0
		return nil
	case "RWMutex.RUnlock":
		if st.readers == 0 {
			it.violationNow("no-panic", "fatal error: sync: RUnlock of unlocked RWMutex in "+it.where())
			it.endPath("fatal", false)
		}
		it.lockEvent(name, p)
		st.readers--
		return nil
	}
	it.lockEvent(name, p)
	return nil
}

func (it *Interp) schedWG(name string, args []Val) {
	s := it.sched
	p := args[0].(Ptr)
	k := lockKey{p.Obj.ID, p.Off}
	switch name {
	case "WaitGroup.Add":
		n := args[1].(Int)
		d := int(int64(sext(it.concretize(n, 8, "WaitGroup.Add delta"), 64)))
		s.wgs[k] += d
		if s.wgs[k] < 0 {
			it.goPanic("sync: negative WaitGroup counter")
		}
		it.wgEvent(name, args)
	case "WaitGroup.Done":
		s.wgs[k]--
		if s.wgs[k] < 0 {
			it.goPanic("sync: negative WaitGroup counter")
		}
		it.wgEvent(name, args)
	case "WaitGroup.Wait":
		it.schedBlock("WaitGroup.Wait in "+it.where(), func() bool { return s.wgs[k] > 0 })
		it.wgEvent(name, args)
	default:
		it.unsupported("sync." + name)
	}
}

func (it *Interp) schedSend(ch *ChanObj, v Val) {
	if ch == nil {
		it.schedBlock("send on nil channel in "+it.where(), func() bool { return true })
	}
	if ch.Cap > 0 {
		it.schedBlock("channel send in "+it.where(), func() bool { return !ch.Closed && len(ch.Buf) >= ch.Cap })
	}
	if ch.Closed {
		it.goPanic("send on closed channel")
	}
	it.chanEvent("send", ch)
	ch.Buf = append(ch.Buf, v)
	seq := ch.Sent
	ch.Sent++
	if ch.Cap == 0 {
		// rendezvous: the sender continues once its value has been taken
		it.schedBlock("channel send in "+it.where(), func() bool { return ch.Recvd <= seq && !ch.Closed })
	}
}

func (it *Interp) schedRecvReady(ch *ChanObj) bool {
	return ch != nil && (len(ch.Buf) > 0 || ch.Closed || (ch.Ticker && ch.Budget > 0))
}

func (it *Interp) schedWaitRecv(ch *ChanObj) {
	s := it.sched
	t := s.threads[s.cur]
	if ch == nil {
		it.schedBlock("receive from nil channel in "+it.where(), func() bool { return true })
	}
	if !it.schedRecvReady(ch) {
		t.onTicker = ch.Ticker
		it.schedBlock("channel receive in "+it.where(), func() bool { return !it.schedRecvReady(ch) })
	}
}

// ---- context ----

func (it *Interp) ctxCancel(cs *ctxState) {
	if cs.canceled {
		return
	}
	cs.canceled = true
	if cs.done != nil && !cs.done.Closed {
		it.chanClose(cs.done)
	}
	for _, c := range cs.children {
		it.ctxCancel(c)
	}
}
