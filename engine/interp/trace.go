package interp

import (
	"fmt"
	"go/types"

	"golang.org/x/tools/go/ssa"

	"verif/engine/sym"
)

// Trace mode: goroutines started by the harness are executed one after the other (each to
// completion or to a blocking point), and every shared-memory access, lock operation and
// channel operation is recorded per thread. The schedule itself is decided later by the
// solver over these event lists (see cmd/hv/race.go).

type Event struct {
	Kind  string // R W lock unlock rlock runlock go close send recv wgadd wgdone wgwait atomicR atomicW begin end
	Obj   int    // object id
	Slot  int
	Name  string // human readable location
	Func  string
	Pos   string
	Child int // for "go": thread id started
	Seq   int
}

type ThreadTrace struct {
	Threads [][]Event
	Names   []string
	Vector  []uint64 // inputs of the path the trace was recorded on (for the native race replay)
}

type tracer struct {
	threads [][]Event
	names   []string
	cur     int
	pending []pendingGo
	objName map[int]string
	objs    map[int]*Object
	it      *Interp
	mute    int // > 0: accesses are part of an atomic operation (recorded as atomicR/atomicW), not plain loads/stores
}

type pendingGo struct {
	fn   Val
	args []Val
	call *ssa.CallCommon
	tid  int
}

func newTracer() *tracer {
	return &tracer{threads: [][]Event{nil}, names: []string{"main"}, objName: map[int]string{}, objs: map[int]*Object{}}
}

func (t *tracer) add(e Event) {
	t.threads[t.cur] = append(t.threads[t.cur], e)
}

func (t *tracer) access(o *Object, idx int, write bool) {
	// every object access is recorded; objects touched by one thread only are filtered out by the decider.
	// Before the first goroutine is started nothing can race (those accesses precede every other thread).
	if len(t.threads) == 1 || t.mute > 0 {
		return
	}
	// accesses made by the methods of sync/atomic's typed values are atomic operations, not plain loads and stores
	if t.it != nil {
		if n := len(t.it.curFn); n > 0 && t.it.pkgOf(t.it.curFn[n-1]) == "sync/atomic" {
			return
		}
	}
	k := "R"
	if write {
		k = "W"
	}
	cur := t.threads[t.cur]
	if n := len(cur); n > 0 {
		last := cur[n-1]
		if last.Kind == k && last.Obj == o.ID && last.Slot == idx {
			return
		}
	}
	e := Event{Kind: k, Obj: o.ID, Slot: idx}
	if t.it != nil {
		if n := len(t.it.curFn); n > 0 {
			// innermost repository function
			for i := n - 1; i >= 0; i-- {
				fn := t.it.curFn[i]
				if pk := t.it.pkgOf(fn); len(pk) >= 24 && pk[:24] == "github.com/scigolib/hdf5" && !isVrt(pk) {
					e.Func = fn.String()
					break
				}
			}
		}
	}
	t.objs[o.ID] = o
	t.add(e)
}

func (t *tracer) finish() *ThreadTrace {
	// name the memory locations
	for ti := range t.threads {
		for ei := range t.threads[ti] {
			e := &t.threads[ti][ei]
			if (e.Kind == "R" || e.Kind == "W") && t.it != nil {
				if o := t.objs[e.Obj]; o != nil {
					e.Name = t.it.slotName(o, e.Slot)
				}
			}
		}
	}
	return &ThreadTrace{Threads: t.threads, Names: t.names}
}

func (it *Interp) evWhere(e *Event) {
	if n := len(it.curFn); n > 0 {
		e.Func = it.curFn[n-1].String()
	}
}

func (it *Interp) spawn(fnv Val, args []Val, c *ssa.CallCommon) {
	if it.tracer == nil {
		it.unsupported("go statement outside trace mode")
	}
	t := it.tracer
	tid := len(t.threads)
	t.threads = append(t.threads, nil)
	name := "goroutine"
	if cl, ok := fnv.(Closure); ok && cl.Fn != nil {
		name = cl.Fn.String()
	}
	t.names = append(t.names, name)
	e := Event{Kind: "go", Child: tid}
	it.evWhere(&e)
	t.add(e)
	if it.sched != nil {
		it.schedSpawn(fnv, args, c, tid, name)
		return
	}
	t.pending = append(t.pending, pendingGo{fn: fnv, args: args, call: c, tid: tid})
}

// RunPending executes the goroutines started so far (called by harnesses through vrt.RunGoroutines or at harness end).
func (it *Interp) runPending() {
	t := it.tracer
	if t == nil {
		return
	}
	for len(t.pending) > 0 {
		p := t.pending[0]
		t.pending = t.pending[1:]
		save := t.cur
		t.cur = p.tid
		func() {
			defer func() {
				t.cur = save
				if r := recover(); r != nil {
					if pe, ok := r.(*pathEnd); ok && pe.reason == "thread blocked" {
						return
					}
					panic(r)
				}
			}()
			it.callValue(p.fn, p.args, p.call)
			t.add(Event{Kind: "end"})
		}()
	}
}

func (it *Interp) lockEvent(name string, p Ptr) {
	if it.tracer == nil {
		return
	}
	k := map[string]string{"Mutex.Lock": "lock", "Mutex.Unlock": "unlock", "RWMutex.Lock": "lock", "RWMutex.Unlock": "unlock",
		"RWMutex.RLock": "rlock", "RWMutex.RUnlock": "runlock", "Mutex.TryLock": "lock"}[name]
	e := Event{Kind: k, Obj: p.Obj.ID, Slot: p.Off}
	it.evWhere(&e)
	it.tracer.add(e)
}

func (it *Interp) wgEvent(name string, args []Val) {
	if it.tracer == nil {
		return
	}
	p := args[0].(Ptr)
	k := map[string]string{"WaitGroup.Add": "wgadd", "WaitGroup.Done": "wgdone", "WaitGroup.Wait": "wgwait"}[name]
	if name == "WaitGroup.Go" {
		it.unsupported("WaitGroup.Go")
	}
	e := Event{Kind: k, Obj: p.Obj.ID, Slot: p.Off}
	it.evWhere(&e)
	it.tracer.add(e)
}

func (it *Interp) atomicEvent(p Ptr, off int, write bool) {
	if it.tracer == nil {
		return
	}
	k := "atomicR"
	if write {
		k = "atomicW"
	}
	e := Event{Kind: k, Obj: p.Obj.ID, Slot: p.Off + off}
	it.evWhere(&e)
	it.tracer.add(e)
}

func (it *Interp) chanEvent(kind string, ch *ChanObj) {
	if it.tracer == nil {
		return
	}
	e := Event{Kind: kind, Obj: ch.ID}
	it.evWhere(&e)
	it.tracer.add(e)
}

func (it *Interp) chanSend(ch *ChanObj, v Val) {
	if it.sched != nil {
		it.schedSend(ch, v)
		return
	}
	if ch == nil {
		it.endPath("thread blocked", false)
	}
	if ch.Closed {
		it.goPanic("send on closed channel")
	}
	it.chanEvent("send", ch)
	ch.Buf = append(ch.Buf, v)
}

func (it *Interp) chanRecv(ch *ChanObj, commaOk bool, t types.Type) Val {
	if it.sched != nil {
		it.schedWaitRecv(ch)
	}
	if ch == nil {
		it.endPath("thread blocked", false)
	}
	var elem types.Type
	if commaOk {
		elem = t.(*types.Tuple).At(0).Type()
	} else {
		elem = t
	}
	if len(ch.Buf) > 0 {
		v := ch.Buf[0]
		ch.Buf = ch.Buf[1:]
		ch.Recvd++
		it.chanEvent("recv", ch)
		if commaOk {
			return Tuple{v, Bool{C: true}}
		}
		return v
	}
	if ch.Closed {
		it.chanEvent("recvclosed", ch)
		z := it.zeroVal(elem)
		if commaOk {
			return Tuple{z, Bool{C: false}}
		}
		return z
	}
	if ch.Ticker && ch.Budget > 0 {
		ch.Budget--
		it.chanEvent("tick", ch)
		v := it.zeroVal(elem)
		if commaOk {
			return Tuple{v, Bool{C: true}}
		}
		return v
	}
	if it.tracer != nil && it.tracer.cur == 0 && len(it.tracer.pending) > 0 {
		// the main thread would block: let the goroutines started so far run, then look again
		it.runPending()
		return it.chanRecv(ch, commaOk, t)
	}
	if it.tracer != nil {
		it.chanEvent("recvblock", ch)
		if it.tracer.cur == 0 {
			it.violationNow("no-deadlock", "main thread blocks forever on a channel receive in "+it.where())
		}
	}
	it.endPath("thread blocked", false)
	return nil
}

func (it *Interp) chanClose(ch *ChanObj) {
	if ch == nil {
		it.goPanic("close of nil channel")
	}
	if ch.Closed {
		it.goPanic("close of closed channel")
	}
	it.chanEvent("close", ch)
	ch.Closed = true
}

// selectOp: in trace mode every case that names a channel may fire (tickers and done channels are
// environment-driven), so the choice is a fork; the blocking form without ready case ends the thread.
func (it *Interp) selectOp(fr *frameState, x *ssa.Select) Val {
	if it.tracer == nil {
		it.unsupported("select outside trace mode")
	}
	n := len(x.States)
	// which cases can fire now
	var enabled []int
	for i, st := range x.States {
		ch, _ := it.get(fr, st.Chan).(*ChanObj)
		if ch == nil {
			continue
		}
		if st.Dir == types.RecvOnly {
			if ch.Closed || len(ch.Buf) > 0 || (ch.Ticker && ch.Budget > 0) {
				enabled = append(enabled, i)
			}
		} else if !ch.Closed && (len(ch.Buf) < ch.Cap) {
			enabled = append(enabled, i)
		}
	}
	if !x.Blocking {
		enabled = append(enabled, n) // default
	}
	if len(enabled) == 0 && it.sched != nil {
		th := it.sched.threads[it.sched.cur]
		for _, st := range x.States {
			if ch, _ := it.get(fr, st.Chan).(*ChanObj); ch != nil && ch.Ticker {
				th.onTicker = true
			}
		}
		it.schedBlock("select in "+it.where(), func() bool { return !it.selectReady(fr, x) })
		return it.selectOp(fr, x)
	}
	if len(enabled) == 0 {
		if it.tracer.cur == 0 && len(it.tracer.pending) > 0 {
			it.runPending()
			return it.selectOp(fr, x)
		}
		if it.tracer.cur == 0 {
			it.violationNow("no-deadlock", "main thread blocks forever in select in "+it.where())
		}
		it.endPath("thread blocked", false)
	}
	k := enabled[0]
	if len(enabled) > 1 {
		conds := make([]*sym.Term, len(enabled))
		v := it.ctx.Fresh("select", sym.BVSort(8))
		for i := range conds {
			conds[i] = it.ctx.Eq(v, it.ctx.BV(8, uint64(i)))
		}
		k = enabled[it.choose(conds, false)]
	}
	res := make(Tuple, 2+countRecv(x))
	idx := k
	if k == n {
		idx = -1
	}
	res[0] = CInt(64, uint64(int64(idx)))
	res[1] = Bool{C: false}
	ri := 2
	for i, st := range x.States {
		if st.Dir == types.RecvOnly {
			ch, _ := it.get(fr, st.Chan).(*ChanObj)
			et := st.Chan.Type().Underlying().(*types.Chan).Elem()
			res[ri] = it.zeroVal(et)
			if i == k && ch != nil {
				switch {
				case len(ch.Buf) > 0:
					it.chanEvent("recv", ch)
					res[ri] = ch.Buf[0]
					ch.Buf = ch.Buf[1:]
					ch.Recvd++
					res[1] = Bool{C: true}
				case ch.Closed:
					it.chanEvent("recvclosed", ch)
				case ch.Ticker:
					ch.Budget--
					it.chanEvent("tick", ch)
					res[1] = Bool{C: true}
				}
			}
			ri++
		} else if i == k {
			ch := it.get(fr, st.Chan).(*ChanObj)
			it.chanSend(ch, it.get(fr, st.Send))
		}
	}
	return res
}

// selectReady: some case of a blocking select can fire
func (it *Interp) selectReady(fr *frameState, x *ssa.Select) bool {
	for _, st := range x.States {
		ch, _ := it.get(fr, st.Chan).(*ChanObj)
		if ch == nil {
			continue
		}
		if st.Dir == types.RecvOnly {
			if ch.Closed || len(ch.Buf) > 0 || (ch.Ticker && ch.Budget > 0) {
				return true
			}
		} else if !ch.Closed && len(ch.Buf) < ch.Cap {
			return true
		}
	}
	return false
}

func countRecv(x *ssa.Select) int {
	n := 0
	for _, st := range x.States {
		if st.Dir == types.RecvOnly {
			n++
		}
	}
	return n
}

var _ = fmt.Sprint
