// Package interp symbolically executes go/ssa functions of /repo.
package interp

import (
	"fmt"
	"go/types"
	"strings"

	"golang.org/x/tools/go/ssa"

	"verif/engine/sym"
)

// Val is a runtime value of the interpreter.
type Val interface{}

// Int carries integers and floats (as bit patterns). T != nil means symbolic.
type Int struct {
	W uint8
	C uint64
	T *sym.Term
}

type Bool struct {
	C bool
	T *sym.Term
}

// SymIdx is a symbolic element index attached to a pointer: address = Off + Idx*Stride, Idx in [0,N).
type SymIdx struct {
	Idx    *sym.Term // BV64
	Stride int
	N      int
}

type Ptr struct {
	Obj *Object
	Off int
	Sym *SymIdx
}

type Slice struct {
	Obj           *Object
	Off, Len, Cap int
	ES            int // slots per element
}

// Str is a string: concrete (B == nil) or a sequence of byte values.
type Str struct {
	S string
	B []Val
}

type Iface struct {
	T types.Type // nil => nil interface
	V Val
}

// Agg is the flattened slot list of a struct or array value.
type Agg []Val

// Tuple is a multi-value result.
type Tuple []Val

type Closure struct {
	Fn      *ssa.Function
	Bind    []Val
	Builtin string
}

type MapObj struct {
	ID   int
	Keys []Val
	Vals []Val
	KT   types.Type
	VT   types.Type
	Base bool
}

type ChanObj struct {
	ID     int
	Buf    []Val
	Cap    int
	Closed bool
	Ticker bool // fed by the environment (time.Ticker): may deliver while Budget > 0
	Budget int
	Sent   int // schedule mode: values deposited / taken so far (rendezvous of unbuffered channels)
	Recvd  int
}

// Opaque wraps a Go value owned by an intrinsic model (os.File, time, reflect ...).
type Opaque struct {
	Kind string
	V    interface{}
}

type Object struct {
	ID       int
	Slots    []Val
	T        types.Type
	Released bool
	Base     bool // allocated during package initialisation: stores are journaled
	Site     string
}

func (i Int) IsConc() bool  { return i.T == nil }
func (b Bool) IsConc() bool { return b.T == nil }

func mask(w uint8) uint64 {
	if w >= 64 {
		return ^uint64(0)
	}
	return (uint64(1) << w) - 1
}

func CInt(w uint8, v uint64) Int { return Int{W: w, C: v & mask(w)} }
func CBool(b bool) Bool          { return Bool{C: b} }

func (it *Interp) term(i Int) *sym.Term {
	if i.T != nil {
		return i.T
	}
	return it.ctx.BV(int(i.W), i.C)
}

func (it *Interp) bterm(b Bool) *sym.Term {
	if b.T != nil {
		return b.T
	}
	return it.ctx.Bool(b.C)
}

func (it *Interp) fromTerm(t *sym.Term) Int {
	if t.IsConst {
		return Int{W: uint8(t.Sort.W), C: t.C}
	}
	return Int{W: uint8(t.Sort.W), T: t}
}

func (it *Interp) fromBTerm(t *sym.Term) Bool {
	if t.IsConst {
		return Bool{C: t.C == 1}
	}
	return Bool{T: t}
}

func sext(v uint64, w uint8) int64 {
	if w >= 64 {
		return int64(v)
	}
	sh := 64 - uint(w)
	return int64(v<<sh) >> sh
}

func describe(v Val) string {
	switch x := v.(type) {
	case nil:
		return "<nil>"
	case Int:
		if x.T != nil {
			return fmt.Sprintf("sym%d", x.W)
		}
		return fmt.Sprintf("%d:u%d", x.C, x.W)
	case Bool:
		if x.T != nil {
			return "symbool"
		}
		return fmt.Sprint(x.C)
	case Str:
		if x.B != nil {
			return fmt.Sprintf("symstr[%d]", len(x.B))
		}
		return fmt.Sprintf("%q", x.S)
	case Ptr:
		if x.Obj == nil {
			return "nilptr"
		}
		return fmt.Sprintf("&obj%d+%d", x.Obj.ID, x.Off)
	case Slice:
		if x.Obj == nil {
			return "nilslice"
		}
		return fmt.Sprintf("slice(obj%d+%d,len %d)", x.Obj.ID, x.Off, x.Len)
	case Iface:
		if x.T == nil {
			return "niliface"
		}
		return "iface(" + x.T.String() + ")"
	case Agg:
		var p []string
		for _, e := range x {
			p = append(p, describe(e))
		}
		return "{" + strings.Join(p, ",") + "}"
	case Tuple:
		var p []string
		for _, e := range x {
			p = append(p, describe(e))
		}
		return "(" + strings.Join(p, ",") + ")"
	}
	return fmt.Sprintf("%T", v)
}

// isNamedType reports whether t is the named type pkgPath.name (through pointers if ptr).
func isNamed(t types.Type, pkg, name string) bool {
	n, ok := types.Unalias(t).(*types.Named)
	if !ok {
		return false
	}
	o := n.Obj()
	return o.Name() == name && o.Pkg() != nil && o.Pkg().Path() == pkg
}

func derefType(t types.Type) types.Type {
	if p, ok := t.Underlying().(*types.Pointer); ok {
		return p.Elem()
	}
	return t
}
