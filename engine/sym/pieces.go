package sym

// Bit-slice normal form: a bit-vector is described as a concatenation (MSB first) of pieces, each either
// constant bits or a contiguous bit range of some source term. Byte-wise serialisation followed by
// re-assembly (x -> bytes -> uint32(b0)|uint32(b1)<<8|...) normalises back to x itself, so round-trip
// obligations fold to "true" by hash-consing instead of reaching the solver.

type piece struct {
	src    *Term // nil => constant
	hi, lo int   // bit range of src (inclusive)
	c      uint64
	w      int
}

const maxPieces = 64

func (c *Ctx) pieces(t *Term) []piece {
	if c.pieceCache == nil {
		c.pieceCache = map[int][]piece{}
	}
	if p, ok := c.pieceCache[t.ID]; ok {
		return p
	}
	p := c.piecesRaw(t)
	if len(p) > maxPieces {
		p = []piece{{src: t, hi: t.Sort.W - 1, lo: 0, w: t.Sort.W}}
	}
	c.pieceCache[t.ID] = p
	return p
}

func (c *Ctx) piecesRaw(t *Term) []piece {
	w := t.Sort.W
	whole := []piece{{src: t, hi: w - 1, lo: 0, w: w}}
	if w > 64 {
		return whole
	}
	switch {
	case t.IsConst:
		return []piece{{c: t.C, w: w}}
	case t.Op == "extract":
		return slicePieces(c.pieces(t.Args[0]), t.P1, t.P2)
	case t.Op == "zext":
		return append([]piece{{c: 0, w: t.P1}}, c.pieces(t.Args[0])...)
	case t.Op == "concat":
		return append(append([]piece{}, c.pieces(t.Args[0])...), c.pieces(t.Args[1])...)
	case t.Op == "bvshl" && t.Args[1].IsConst:
		k := int(t.Args[1].C)
		if k >= w {
			return []piece{{c: 0, w: w}}
		}
		return append(slicePieces(c.pieces(t.Args[0]), w-1-k, 0), piece{c: 0, w: k})
	case t.Op == "bvlshr" && t.Args[1].IsConst:
		k := int(t.Args[1].C)
		if k >= w {
			return []piece{{c: 0, w: w}}
		}
		return append([]piece{{c: 0, w: k}}, slicePieces(c.pieces(t.Args[0]), w-1, k)...)
	}
	return whole
}

// slicePieces returns bits hi..lo (inclusive) of a piece list (MSB first).
func slicePieces(ps []piece, hi, lo int) []piece {
	total := 0
	for _, p := range ps {
		total += p.w
	}
	var out []piece
	pos := total // bit index just above the current piece
	for _, p := range ps {
		top := pos - 1
		bot := pos - p.w
		pos = bot
		if bot > hi || top < lo {
			continue
		}
		h, l := top, bot
		if h > hi {
			h = hi
		}
		if l < lo {
			l = lo
		}
		nw := h - l + 1
		if p.src == nil {
			out = append(out, piece{c: (p.c >> uint(l-bot)) & mask(nw), w: nw})
		} else {
			out = append(out, piece{src: p.src, hi: p.lo + (h - bot), lo: p.lo + (l - bot), w: nw})
		}
	}
	return out
}

// alignPieces splits two piece lists of equal total width at the union of their boundaries.
func alignPieces(a, b []piece) ([]piece, []piece) {
	var oa, ob []piece
	i, j := 0, 0
	var ra, rb piece
	haveA, haveB := false, false
	for {
		if !haveA {
			if i >= len(a) {
				break
			}
			ra = a[i]
			i++
			haveA = true
		}
		if !haveB {
			if j >= len(b) {
				break
			}
			rb = b[j]
			j++
			haveB = true
		}
		n := ra.w
		if rb.w < n {
			n = rb.w
		}
		ta, restA := splitTop(ra, n)
		tb, restB := splitTop(rb, n)
		oa = append(oa, ta)
		ob = append(ob, tb)
		if restA.w > 0 {
			ra = restA
		} else {
			haveA = false
		}
		if restB.w > 0 {
			rb = restB
		} else {
			haveB = false
		}
	}
	return oa, ob
}

// splitTop takes the n most significant bits of p.
func splitTop(p piece, n int) (piece, piece) {
	if n >= p.w {
		return p, piece{}
	}
	rest := p.w - n
	if p.src == nil {
		return piece{c: p.c >> uint(rest), w: n}, piece{c: p.c & mask(rest), w: rest}
	}
	return piece{src: p.src, hi: p.hi, lo: p.hi - n + 1, w: n}, piece{src: p.src, hi: p.hi - n, lo: p.lo, w: rest}
}

// orPieces merges two aligned lists when at every position at least one side is constant zero
// (or both are constants). ok=false otherwise.
func orPieces(a, b []piece) ([]piece, bool) {
	out := make([]piece, 0, len(a))
	for i := range a {
		x, y := a[i], b[i]
		switch {
		case x.src == nil && y.src == nil:
			out = append(out, piece{c: x.c | y.c, w: x.w})
		case x.src == nil && x.c == 0:
			out = append(out, y)
		case y.src == nil && y.c == 0:
			out = append(out, x)
		case x.src != nil && y.src != nil && x.src == y.src && x.hi == y.hi && x.lo == y.lo:
			out = append(out, x)
		default:
			return nil, false
		}
	}
	return out, true
}

// fromPieces rebuilds a canonical term (adjacent ranges of one source merged).
func (c *Ctx) fromPieces(ps []piece) *Term {
	// merge
	var m []piece
	for _, p := range ps {
		if p.w == 0 {
			continue
		}
		if n := len(m); n > 0 {
			q := &m[n-1]
			if q.src == nil && p.src == nil && q.w+p.w <= 64 {
				q.c = q.c<<uint(p.w) | p.c
				q.w += p.w
				continue
			}
			if q.src != nil && p.src == q.src && q.lo == p.hi+1 {
				q.lo = p.lo
				q.w += p.w
				continue
			}
		}
		m = append(m, p)
	}
	var t *Term
	for _, p := range m {
		var pt *Term
		if p.src == nil {
			pt = c.BV(p.w, p.c)
		} else {
			pt = c.extractRaw(p.hi, p.lo, p.src)
		}
		if t == nil {
			t = pt
		} else {
			t = c.concatRaw(t, pt)
		}
	}
	return t
}

func (c *Ctx) extractRaw(hi, lo int, a *Term) *Term {
	if lo == 0 && hi == a.Sort.W-1 {
		return a
	}
	return c.mk("extract", BVSort(hi-lo+1), hi, lo, a)
}

func (c *Ctx) concatRaw(hi, lo *Term) *Term {
	if hi.IsConst && hi.C == 0 && hi.Sort.W <= 64 && lo.Op != "concat" {
		return c.mk("zext", BVSort(hi.Sort.W+lo.Sort.W), hi.Sort.W, 0, lo)
	}
	return c.mk("concat", BVSort(hi.Sort.W+lo.Sort.W), 0, 0, hi, lo)
}

// tryOr attempts the bit-slice merge of a|b (also valid for a+b and a^b when the operands are disjoint).
func (c *Ctx) tryOr(a, b *Term) *Term {
	if a.Sort.W > 64 {
		return nil
	}
	pa, pb := c.pieces(a), c.pieces(b)
	if len(pa) == 1 && pa[0].src == a && len(pb) == 1 && pb[0].src == b {
		return nil
	}
	xa, xb := alignPieces(pa, pb)
	m, ok := orPieces(xa, xb)
	if !ok {
		return nil
	}
	// only merge disjoint operands (a constant|constant position is fine too)
	return c.fromPieces(m)
}
