package sym

import (
	"bufio"
	"fmt"
	"io"
	"os"
	"os/exec"
	"strconv"
	"strings"
	"sync/atomic"
	"time"
)

type Result int

const (
	Unsat Result = iota
	Sat
	Unknown
)

func (r Result) String() string { return [...]string{"unsat", "sat", "unknown"}[r] }

// Solver drives one live SMT solver process over stdin/stdout.
type Solver struct {
	Name    string
	args    []string
	cmd     *exec.Cmd
	in      *bufio.Writer
	out     *bufio.Reader
	ctx     *Ctx
	defined map[int]int // term id -> stack level at which it was defined
	defLog  [][]int     // per level: ids defined there
	ufSent  int
	pc      []*Term // asserted path condition, one push level each
	Log     io.Writer

	Queries   int
	NSat      int
	NUnsat    int
	NUnknown  int
	Errors    int
	TimeSpent time.Duration
	TimeoutMs int
	dead      bool
	lastSat   bool
	lines     chan string
	Hung      int
	writing   atomic.Int64 // start (unix nanoseconds) of the pipe write in progress, 0 when none
	wdStop    chan struct{}
}

// Backends available in this sandbox.
func BackendArgs(name string) []string {
	switch name {
	case "z3":
		return []string{"/usr/bin/z3", "-in", "-smt2"}
	case "z3-new":
		return []string{"z3-new", "-in", "-smt2"}
	case "cvc5":
		return []string{"cvc5", "--incremental", "--lang=smt2", "--fp-exp", "--produce-models"}
	case "cvc5-int":
		return []string{"cvc5", "--incremental", "--lang=smt2", "--solve-bv-as-int=sum", "--produce-models"}
	}
	return nil
}

func NewSolver(name string, ctx *Ctx, timeoutMs int) (*Solver, error) {
	s := &Solver{Name: name, args: BackendArgs(name), ctx: ctx, TimeoutMs: timeoutMs}
	if s.args == nil {
		return nil, fmt.Errorf("unknown backend %s", name)
	}
	if err := s.start(); err != nil {
		return nil, err
	}
	return s, nil
}

func (s *Solver) start() error {
	args := s.args
	if strings.HasPrefix(s.Name, "cvc5") && s.TimeoutMs > 0 {
		args = append(append([]string{}, args...), "--tlimit-per="+strconv.Itoa(s.TimeoutMs))
	}
	s.cmd = exec.Command(args[0], args[1:]...)
	stdin, err := s.cmd.StdinPipe()
	if err != nil {
		return err
	}
	stdout, err := s.cmd.StdoutPipe()
	if err != nil {
		return err
	}
	s.cmd.Stderr = s.cmd.Stdout
	if err := s.cmd.Start(); err != nil {
		return err
	}
	s.in = bufio.NewWriterSize(stdin, 1<<16)
	s.out = bufio.NewReaderSize(stdout, 1<<16)
	// a solver that stops reading its input (busy with a huge term) blocks our pipe write, where the
	// reply time limit of readRaw cannot see it: a write that stays blocked past the limit kills the process
	if s.wdStop != nil {
		close(s.wdStop)
	}
	s.wdStop = make(chan struct{})
	s.writing.Store(0)
	go func(stop chan struct{}, proc *os.Process) {
		limit := time.Duration(s.TimeoutMs)*time.Millisecond + 20*time.Second
		if s.TimeoutMs == 0 {
			limit = 5 * time.Minute
		}
		tick := time.NewTicker(time.Second)
		defer tick.Stop()
		for {
			select {
			case <-stop:
				return
			case <-tick.C:
				if w := s.writing.Load(); w != 0 && time.Since(time.Unix(0, w)) > limit {
					s.Hung++
					proc.Kill()
					return
				}
			}
		}
	}(s.wdStop, s.cmd.Process)
	lines := make(chan string, 1024)
	s.lines = lines
	go func(r *bufio.Reader) {
		for {
			line, err := r.ReadString('\n')
			if line != "" {
				lines <- line
			}
			if err != nil {
				close(lines)
				return
			}
		}
	}(s.out)
	s.defined = map[int]int{}
	s.defLog = [][]int{nil}
	s.ufSent = 0
	s.pc = nil
	s.dead = false
	s.send("(set-option :print-success false)")
	s.send("(set-option :produce-models true)")
	if strings.HasPrefix(s.Name, "z3") && s.TimeoutMs > 0 {
		s.send(fmt.Sprintf("(set-option :timeout %d)", s.TimeoutMs))
	}
	if strings.HasPrefix(s.Name, "cvc5") {
		s.send("(set-logic ALL)")
	}
	return nil
}

func (s *Solver) Close() {
	if s.cmd != nil && s.cmd.Process != nil {
		s.send("(exit)")
		s.in.Flush()
		done := make(chan struct{})
		go func() { s.cmd.Wait(); close(done) }()
		select {
		case <-done:
		case <-time.After(500 * time.Millisecond):
			s.cmd.Process.Kill()
			<-done
		}
	}
}

// Restart kills the process and starts a fresh one (all definitions are lost).
func (s *Solver) Restart() error {
	if s.cmd != nil && s.cmd.Process != nil {
		s.cmd.Process.Kill()
		s.cmd.Wait()
	}
	return s.start()
}

func (s *Solver) send(line string) {
	if s.Log != nil {
		fmt.Fprintln(s.Log, line)
	}
	s.writing.Store(time.Now().UnixNano())
	s.in.WriteString(line)
	s.in.WriteByte('\n')
	s.writing.Store(0)
}

func (s *Solver) level() int { return len(s.defLog) - 1 }

func (s *Solver) push() {
	s.send("(push 1)")
	s.defLog = append(s.defLog, nil)
}

func (s *Solver) pop() {
	s.send("(pop 1)")
	top := s.defLog[len(s.defLog)-1]
	for _, id := range top {
		delete(s.defined, id)
	}
	s.defLog = s.defLog[:len(s.defLog)-1]
}

// define makes sure t and everything below it is known to the solver.
func (s *Solver) define(t *Term) {
	for s.ufSent < len(s.ctx.ufOrd) {
		// UF declarations must live at level 0: they are sent when first seen; if we are
		// inside a push they are recorded to be re-sent after the pop (cheap: re-declare lazily).
		n := s.ctx.ufOrd[s.ufSent]
		s.sendDecl(-(s.ufSent + 1), s.ctx.UFs[n])
		s.ufSent++
	}
	s.defRec(t)
}

func (s *Solver) sendDecl(key int, text string) {
	if _, ok := s.defined[key]; ok {
		return
	}
	s.send(text)
	s.defined[key] = s.level()
	s.defLog[s.level()] = append(s.defLog[s.level()], key)
}

func (s *Solver) defRec(t *Term) {
	if _, ok := s.defined[t.ID]; ok {
		return
	}
	// iterative post-order to avoid deep recursion
	type fr struct {
		t *Term
		i int
	}
	stack := []fr{{t, 0}}
	for len(stack) > 0 {
		f := &stack[len(stack)-1]
		if _, ok := s.defined[f.t.ID]; ok {
			stack = stack[:len(stack)-1]
			continue
		}
		if f.i < len(f.t.Args) {
			a := f.t.Args[f.i]
			f.i++
			if _, ok := s.defined[a.ID]; !ok {
				stack = append(stack, fr{a, 0})
			}
			continue
		}
		tt := f.t
		stack = stack[:len(stack)-1]
		switch tt.Op {
		case "const":
		case "var":
			s.send(fmt.Sprintf("(declare-const %s %s)", smtName(tt.Name), tt.Sort.SMT()))
		default:
			if strings.HasPrefix(tt.Op, "uf:") {
				// make sure the declaration is (still) present
				name := tt.Op[3:]
				for i, n := range s.ctx.ufOrd {
					if n == name {
						s.sendDecl(-(i + 1), s.ctx.UFs[n])
					}
				}
			}
			s.send(fmt.Sprintf("(define-fun t%d () %s %s)", tt.ID, tt.Sort.SMT(), tt.Def()))
		}
		s.defined[tt.ID] = s.level()
		s.defLog[s.level()] = append(s.defLog[s.level()], tt.ID)
	}
}

// SyncPC makes the solver's assertion stack equal to pc (one level per conjunct).
func (s *Solver) SyncPC(pc []*Term) {
	if s.dead {
		s.Restart()
	}
	k := 0
	for k < len(pc) && k < len(s.pc) && pc[k] == s.pc[k] {
		k++
	}
	for len(s.pc) > k {
		s.pop()
		s.pc = s.pc[:len(s.pc)-1]
	}
	for ; k < len(pc); k++ {
		s.push()
		s.define(pc[k])
		s.send("(assert " + pc[k].Ref() + ")")
		s.pc = append(s.pc, pc[k])
	}
}

// readRaw returns the next output line; a solver that stays silent past its time limit is killed.
func (s *Solver) readRaw() (string, error) {
	limit := time.Duration(s.TimeoutMs)*time.Millisecond + 3*time.Second
	if s.TimeoutMs == 0 {
		limit = time.Hour
	}
	select {
	case line, ok := <-s.lines:
		if !ok {
			return "", io.EOF
		}
		return line, nil
	case <-time.After(limit):
		s.Hung++
		s.cmd.Process.Kill()
		return "", fmt.Errorf("solver exceeded its time limit and was killed")
	}
}

func (s *Solver) readLine() (string, error) {
	line, err := s.readRaw()
	return strings.TrimSpace(line), err
}

func (s *Solver) check() Result {
	s.send("(check-sat)")
	s.writing.Store(time.Now().UnixNano())
	s.in.Flush()
	s.writing.Store(0)
	t0 := time.Now()
	defer func() { s.TimeSpent += time.Since(t0) }()
	s.Queries++
	sawError := false
	for {
		line, err := s.readLine()
		if err != nil {
			s.dead = true
			s.NUnknown++
			return Unknown
		}
		switch {
		case line == "sat":
			if sawError {
				s.NUnknown++
				return Unknown
			}
			s.NSat++
			return Sat
		case line == "unsat":
			if sawError {
				s.NUnknown++
				return Unknown
			}
			s.NUnsat++
			return Unsat
		case line == "unknown" || line == "timeout":
			s.NUnknown++
			return Unknown
		case strings.HasPrefix(line, "(error"):
			sawError = true
			s.Errors++
			fmt.Fprintf(os.Stderr, "solver %s: %s\n", s.Name, line)
			if strings.Contains(line, "interrupted by timeout") || strings.Contains(line, "resource") {
				// cvc5 style timeout report: no verdict line follows
				s.NUnknown++
				return Unknown
			}
		case line == "":
		default:
			// unexpected chatter
		}
	}
}

// CheckWith checks pc ∧ extra. The path condition must have been synced.
func (s *Solver) CheckWith(extra *Term) Result {
	if s.dead {
		s.Restart()
	}
	s.push()
	s.define(extra)
	s.send("(assert " + extra.Ref() + ")")
	r := s.check()
	if s.dead {
		// the process was killed or died: everything it knew is gone
		s.lastSat = false
		s.Restart()
		return Unknown
	}
	s.lastSat = r == Sat
	if r != Sat {
		s.pop()
	}
	// when sat the frame is kept until ReleaseModel so the model can be read
	return r
}

var _ = io.EOF

func (s *Solver) ReleaseModel() {
	if s.lastSat {
		s.pop()
		s.lastSat = false
	}
}

// Values reads the model values of the given variables (BV<=64 or Bool) after a sat CheckWith.
func (s *Solver) Values(vars []*Term) (map[int]uint64, error) {
	res := map[int]uint64{}
	if len(vars) == 0 {
		return res, nil
	}
	for _, v := range vars {
		s.define(v)
	}
	for start := 0; start < len(vars); start += 200 {
		end := start + 200
		if end > len(vars) {
			end = len(vars)
		}
		var sb strings.Builder
		sb.WriteString("(get-value (")
		for _, v := range vars[start:end] {
			sb.WriteString(v.Ref())
			sb.WriteByte(' ')
		}
		sb.WriteString("))")
		s.send(sb.String())
		s.writing.Store(time.Now().UnixNano())
		s.in.Flush()
		s.writing.Store(0)
		// read until parentheses balance
		depth := 0
		var txt strings.Builder
		started := false
		for {
			line, err := s.readRaw()
			if err != nil {
				s.dead = true
				return nil, err
			}
			if strings.HasPrefix(strings.TrimSpace(line), "(error") {
				return nil, fmt.Errorf("get-value: %s", line)
			}
			txt.WriteString(line)
			for _, ch := range line {
				if ch == '(' {
					depth++
					started = true
				} else if ch == ')' {
					depth--
				}
			}
			if started && depth <= 0 {
				break
			}
		}
		vals := parseValues(txt.String())
		if len(vals) != end-start {
			return nil, fmt.Errorf("get-value: parsed %d of %d values from %q", len(vals), end-start, txt.String())
		}
		for i, v := range vars[start:end] {
			res[v.ID] = vals[i]
		}
	}
	return res, nil
}

// parseValues extracts the value literals from a get-value response in order.
func parseValues(s string) []uint64 {
	var out []uint64
	// tokens of interest: #x..., #b..., true, false, (_ bvN w)
	i := 0
	// skip outer "("
	depth := 0
	for i < len(s) {
		ch := s[i]
		switch {
		case ch == '(':
			depth++
			i++
			// (_ bvN w)
			if strings.HasPrefix(s[i:], "_ bv") {
				j := i + 4
				k := j
				for k < len(s) && s[k] >= '0' && s[k] <= '9' {
					k++
				}
				v, _ := strconv.ParseUint(s[j:k], 10, 64)
				out = append(out, v)
				for k < len(s) && s[k] != ')' {
					k++
				}
				i = k
			}
		case ch == ')':
			depth--
			i++
		case ch == '|':
			// quoted symbol: skip
			j := strings.IndexByte(s[i+1:], '|')
			if j < 0 {
				return out
			}
			i = i + 1 + j + 1
		case ch == '#' && i+1 < len(s) && s[i+1] == 'x':
			j := i + 2
			for j < len(s) && strings.IndexByte("0123456789abcdefABCDEF", s[j]) >= 0 {
				j++
			}
			h := s[i+2 : j]
			if len(h) > 16 {
				h = h[len(h)-16:]
			}
			v, _ := strconv.ParseUint(h, 16, 64)
			out = append(out, v)
			i = j
		case ch == '#' && i+1 < len(s) && s[i+1] == 'b':
			j := i + 2
			for j < len(s) && (s[j] == '0' || s[j] == '1') {
				j++
			}
			b := s[i+2 : j]
			if len(b) > 64 {
				b = b[len(b)-64:]
			}
			v, _ := strconv.ParseUint(b, 2, 64)
			out = append(out, v)
			i = j
		case strings.HasPrefix(s[i:], "true") && depth >= 2 && isDelim(s, i+4) && isDelimBefore(s, i):
			out = append(out, 1)
			i += 4
		case strings.HasPrefix(s[i:], "false") && depth >= 2 && isDelim(s, i+5) && isDelimBefore(s, i):
			out = append(out, 0)
			i += 5
		default:
			i++
		}
	}
	return out
}

func isDelim(s string, i int) bool {
	return i >= len(s) || s[i] == ')' || s[i] == ' ' || s[i] == '\n'
}
func isDelimBefore(s string, i int) bool {
	return i == 0 || s[i-1] == ' ' || s[i-1] == '(' || s[i-1] == '\n'
}

// Raw sends raw text (used for stand-alone scripts) and returns the verdict of a check-sat.
func (s *Solver) Raw(text string) { s.send(text) }
func (s *Solver) RawCheck() Result {
	return s.check()
}
