// Package sym is a small hash-consed SMT term layer (bit-vectors, booleans,
// floating point through bit patterns) with constant folding.
package sym

import (
	"fmt"
	"math/bits"
	"strconv"
	"strings"
)

type Kind uint8

const (
	KBool Kind = iota
	KBV
)

type Sort struct {
	K Kind
	W int
}

func BVSort(w int) Sort { return Sort{KBV, w} }

var BoolSort = Sort{KBool, 0}

func (s Sort) SMT() string {
	if s.K == KBool {
		return "Bool"
	}
	switch s.W {
	case -32:
		return "(_ FloatingPoint 8 24)"
	case -64:
		return "(_ FloatingPoint 11 53)"
	}
	return "(_ BitVec " + strconv.Itoa(s.W) + ")"
}

type Term struct {
	ID      int
	Op      string
	Args    []*Term
	P1, P2  int
	Sort    Sort
	IsConst bool
	C       uint64 // constant value (BV width<=64, Bool: 0/1)
	Name    string // variables / UF name
	size    int
}

type Ctx struct {
	table      map[string]*Term
	Terms      []*Term
	Vars       []*Term
	UFs        map[string]string // name -> declaration
	ufOrd      []string
	fresh      int
	pieceCache map[int][]piece
}

func NewCtx() *Ctx {
	return &Ctx{table: map[string]*Term{}, UFs: map[string]string{}}
}

func mask(w int) uint64 {
	if w >= 64 {
		return ^uint64(0)
	}
	return (uint64(1) << uint(w)) - 1
}

func (c *Ctx) mk(op string, sort Sort, p1, p2 int, args ...*Term) *Term {
	var sb strings.Builder
	sb.WriteString(op)
	sb.WriteByte('|')
	sb.WriteString(strconv.Itoa(p1))
	sb.WriteByte('|')
	sb.WriteString(strconv.Itoa(p2))
	sb.WriteByte('|')
	sb.WriteString(strconv.Itoa(int(sort.K)))
	sb.WriteByte('.')
	sb.WriteString(strconv.Itoa(sort.W))
	for _, a := range args {
		sb.WriteByte(',')
		sb.WriteString(strconv.Itoa(a.ID))
	}
	k := sb.String()
	if t, ok := c.table[k]; ok {
		return t
	}
	t := &Term{ID: len(c.Terms), Op: op, Args: args, P1: p1, P2: p2, Sort: sort}
	t.size = 1
	for _, a := range args {
		t.size += a.size
		if t.size > 1<<30 {
			t.size = 1 << 30
		}
	}
	c.Terms = append(c.Terms, t)
	c.table[k] = t
	return t
}

func (t *Term) Size() int { return t.size }

// Var creates (or returns) a named variable.
func (c *Ctx) Var(name string, s Sort) *Term {
	k := "var|" + name + "|" + s.SMT()
	if t, ok := c.table[k]; ok {
		return t
	}
	t := &Term{ID: len(c.Terms), Op: "var", Sort: s, Name: name, size: 1}
	c.Terms = append(c.Terms, t)
	c.table[k] = t
	c.Vars = append(c.Vars, t)
	return t
}

func (c *Ctx) Fresh(prefix string, s Sort) *Term {
	c.fresh++
	return c.Var(fmt.Sprintf("%s!%d", prefix, c.fresh), s)
}

func (c *Ctx) BV(w int, v uint64) *Term {
	if w > 64 {
		// wide constant: zero-extended 64-bit value
		return c.ZExt(w-64, c.BV(64, v))
	}
	v &= mask(w)
	k := "c|" + strconv.Itoa(w) + "|" + strconv.FormatUint(v, 16)
	if t, ok := c.table[k]; ok {
		return t
	}
	t := &Term{ID: len(c.Terms), Op: "const", Sort: BVSort(w), IsConst: true, C: v, size: 1}
	c.Terms = append(c.Terms, t)
	c.table[k] = t
	return t
}

func (c *Ctx) Bool(b bool) *Term {
	k := "b|false"
	v := uint64(0)
	if b {
		k = "b|true"
		v = 1
	}
	if t, ok := c.table[k]; ok {
		return t
	}
	t := &Term{ID: len(c.Terms), Op: "const", Sort: BoolSort, IsConst: true, C: v, size: 1}
	c.Terms = append(c.Terms, t)
	c.table[k] = t
	return t
}

func (c *Ctx) True() *Term  { return c.Bool(true) }
func (c *Ctx) False() *Term { return c.Bool(false) }

func (t *Term) IsTrue() bool  { return t.IsConst && t.Sort.K == KBool && t.C == 1 }
func (t *Term) IsFalse() bool { return t.IsConst && t.Sort.K == KBool && t.C == 0 }

func (c *Ctx) Not(a *Term) *Term {
	if a.IsConst {
		return c.Bool(a.C == 0)
	}
	if a.Op == "not" {
		return a.Args[0]
	}
	return c.mk("not", BoolSort, 0, 0, a)
}

func (c *Ctx) And(a, b *Term) *Term {
	if a.IsConst {
		if a.C == 1 {
			return b
		}
		return a
	}
	if b.IsConst {
		if b.C == 1 {
			return a
		}
		return b
	}
	if a == b {
		return a
	}
	if a.ID > b.ID {
		a, b = b, a
	}
	return c.mk("and", BoolSort, 0, 0, a, b)
}

func (c *Ctx) Or(a, b *Term) *Term {
	if a.IsConst {
		if a.C == 0 {
			return b
		}
		return a
	}
	if b.IsConst {
		if b.C == 0 {
			return a
		}
		return b
	}
	if a == b {
		return a
	}
	if a.ID > b.ID {
		a, b = b, a
	}
	return c.mk("or", BoolSort, 0, 0, a, b)
}

func (c *Ctx) Implies(a, b *Term) *Term { return c.Or(c.Not(a), b) }

func (c *Ctx) Xor(a, b *Term) *Term {
	if a.IsConst && b.IsConst {
		return c.Bool(a.C != b.C)
	}
	if a.IsConst {
		if a.C == 1 {
			return c.Not(b)
		}
		return b
	}
	if b.IsConst {
		if b.C == 1 {
			return c.Not(a)
		}
		return a
	}
	return c.mk("xor", BoolSort, 0, 0, a, b)
}

func (c *Ctx) Ite(cond, a, b *Term) *Term {
	if cond.IsConst {
		if cond.C == 1 {
			return a
		}
		return b
	}
	if a == b {
		return a
	}
	if a.Sort.K == KBool {
		if a.IsConst && b.IsConst {
			if a.C == 1 {
				return cond
			}
			return c.Not(cond)
		}
	}
	return c.mk("ite", a.Sort, 0, 0, cond, a, b)
}

func (c *Ctx) Eq(a, b *Term) *Term {
	if a == b {
		return c.True()
	}
	if a.IsConst && b.IsConst {
		return c.Bool(a.C == b.C)
	}
	if a.Sort.K == KBool {
		if a.IsConst {
			if a.C == 1 {
				return b
			}
			return c.Not(b)
		}
		if b.IsConst {
			if b.C == 1 {
				return a
			}
			return c.Not(a)
		}
	}
	// zext(x) == const  -> x == const (if fits) else false
	if b.IsConst && a.Op == "zext" {
		iw := a.Args[0].Sort.W
		if iw <= 64 {
			if b.C&^mask(iw) != 0 {
				return c.False()
			}
			return c.Eq(a.Args[0], c.BV(iw, b.C))
		}
	}
	if a.IsConst && b.Op == "zext" {
		return c.Eq(b, a)
	}
	if a.ID > b.ID {
		a, b = b, a
	}
	return c.mk("=", BoolSort, 0, 0, a, b)
}

func sext64(v uint64, w int) int64 {
	if w >= 64 {
		return int64(v)
	}
	sh := uint(64 - w)
	return int64(v<<sh) >> sh
}

// BVBin builds a binary bit-vector operation: bvadd bvsub bvmul bvudiv bvurem
// bvsdiv bvsrem bvand bvor bvxor bvshl bvlshr bvashr.
func (c *Ctx) BVBin(op string, a, b *Term) *Term {
	w := a.Sort.W
	if a.Sort != b.Sort {
		panic(fmt.Sprintf("sym: sort mismatch %s: %v %v", op, a.Sort, b.Sort))
	}
	if a.IsConst && b.IsConst && w <= 64 {
		x, y := a.C, b.C
		var r uint64
		ok := true
		switch op {
		case "bvadd":
			r = x + y
		case "bvsub":
			r = x - y
		case "bvmul":
			r = x * y
		case "bvudiv":
			if y == 0 {
				r = mask(w)
			} else {
				r = x / y
			}
		case "bvurem":
			if y == 0 {
				r = x
			} else {
				r = x % y
			}
		case "bvsdiv":
			if y == 0 {
				ok = false
			} else {
				sx, sy := sext64(x, w), sext64(y, w)
				if sy == -1 {
					r = uint64(-sx)
				} else {
					r = uint64(sx / sy)
				}
			}
		case "bvsrem":
			if y == 0 {
				ok = false
			} else {
				sx, sy := sext64(x, w), sext64(y, w)
				if sy == -1 {
					r = 0
				} else {
					r = uint64(sx % sy)
				}
			}
		case "bvand":
			r = x & y
		case "bvor":
			r = x | y
		case "bvxor":
			r = x ^ y
		case "bvshl":
			if y >= uint64(w) {
				r = 0
			} else {
				r = x << y
			}
		case "bvlshr":
			if y >= uint64(w) {
				r = 0
			} else {
				r = x >> y
			}
		case "bvashr":
			sx := sext64(x, w)
			if y >= uint64(w) {
				y = uint64(w - 1)
			}
			r = uint64(sx >> y)
		default:
			ok = false
		}
		if ok {
			return c.BV(w, r)
		}
	}
	// identities
	switch op {
	case "bvadd", "bvor", "bvxor":
		if a.IsConst && a.C == 0 {
			return b
		}
		if b.IsConst && b.C == 0 {
			return a
		}
	case "bvsub":
		if b.IsConst && b.C == 0 {
			return a
		}
		if a == b {
			return c.BV(w, 0)
		}
	case "bvshl", "bvlshr", "bvashr":
		if b.IsConst && b.C == 0 {
			return a
		}
		if a.IsConst && a.C == 0 {
			return a
		}
		if b.IsConst && w <= 64 && b.C >= uint64(w) && op != "bvashr" {
			return c.BV(w, 0)
		}
		// (zext x) >> k with k >= width(x) -> 0
		if op == "bvlshr" && b.IsConst && a.Op == "zext" && b.C >= uint64(a.Args[0].Sort.W) {
			return c.BV(w, 0)
		}
	case "bvand":
		if a.IsConst && a.C == 0 {
			return a
		}
		if b.IsConst && b.C == 0 {
			return b
		}
		if w <= 64 {
			if a.IsConst && a.C == mask(w) {
				return b
			}
			if b.IsConst && b.C == mask(w) {
				return a
			}
		}
		if a == b {
			return a
		}
	case "bvmul":
		if a.IsConst && a.C == 1 {
			return b
		}
		if b.IsConst && b.C == 1 {
			return a
		}
		if a.IsConst && a.C == 0 {
			return a
		}
		if b.IsConst && b.C == 0 {
			return b
		}
	case "bvudiv":
		if b.IsConst && b.C == 1 {
			return a
		}
	}
	switch op {
	case "bvor", "bvadd", "bvxor":
		if r := c.tryOrDisjoint(op, a, b); r != nil {
			return r
		}
	}
	switch op {
	case "bvadd", "bvmul", "bvand", "bvor", "bvxor":
		if a.ID > b.ID {
			a, b = b, a
		}
	}
	return c.mk(op, a.Sort, 0, 0, a, b)
}

func (c *Ctx) BVNot(a *Term) *Term {
	if a.IsConst && a.Sort.W <= 64 {
		return c.BV(a.Sort.W, ^a.C)
	}
	return c.mk("bvnot", a.Sort, 0, 0, a)
}

func (c *Ctx) BVNeg(a *Term) *Term {
	if a.IsConst && a.Sort.W <= 64 {
		return c.BV(a.Sort.W, -a.C)
	}
	return c.mk("bvneg", a.Sort, 0, 0, a)
}

// Cmp builds bvult bvule bvugt bvuge bvslt bvsle bvsgt bvsge.
func (c *Ctx) Cmp(op string, a, b *Term) *Term {
	w := a.Sort.W
	if a.Sort != b.Sort {
		panic(fmt.Sprintf("sym: sort mismatch %s: %v %v", op, a.Sort, b.Sort))
	}
	if a.IsConst && b.IsConst && w <= 64 {
		x, y := a.C, b.C
		sx, sy := sext64(x, w), sext64(y, w)
		var r bool
		switch op {
		case "bvult":
			r = x < y
		case "bvule":
			r = x <= y
		case "bvugt":
			r = x > y
		case "bvuge":
			r = x >= y
		case "bvslt":
			r = sx < sy
		case "bvsle":
			r = sx <= sy
		case "bvsgt":
			r = sx > sy
		case "bvsge":
			r = sx >= sy
		}
		return c.Bool(r)
	}
	if a == b {
		switch op {
		case "bvule", "bvuge", "bvsle", "bvsge":
			return c.True()
		default:
			return c.False()
		}
	}
	// trivial unsigned bounds
	if w <= 64 {
		switch op {
		case "bvult":
			if b.IsConst && b.C == 0 {
				return c.False()
			}
		case "bvuge":
			if b.IsConst && b.C == 0 {
				return c.True()
			}
		case "bvugt":
			if a.IsConst && a.C == 0 {
				return c.False()
			}
		case "bvule":
			if a.IsConst && a.C == 0 {
				return c.True()
			}
		}
		// zext(x) < const where const > max(x)
		if a.Op == "zext" && b.IsConst && a.Args[0].Sort.W < 64 {
			mx := mask(a.Args[0].Sort.W)
			switch op {
			case "bvult":
				if b.C > mx {
					return c.True()
				}
			case "bvule":
				if b.C >= mx {
					return c.True()
				}
			case "bvugt":
				if b.C >= mx {
					return c.False()
				}
			case "bvuge":
				if b.C > mx {
					return c.False()
				}
			case "bvslt":
				if sext64(b.C, w) > int64(mx) {
					return c.True()
				}
				if sext64(b.C, w) <= 0 {
					return c.False()
				}
			case "bvsle":
				if sext64(b.C, w) >= int64(mx) {
					return c.True()
				}
				if sext64(b.C, w) < 0 {
					return c.False()
				}
			case "bvsgt":
				if sext64(b.C, w) >= int64(mx) {
					return c.False()
				}
				if sext64(b.C, w) < 0 {
					return c.True()
				}
			case "bvsge":
				if sext64(b.C, w) > int64(mx) {
					return c.False()
				}
				if sext64(b.C, w) <= 0 {
					return c.True()
				}
			}
		}
	}
	return c.mk(op, BoolSort, 0, 0, a, b)
}

func (c *Ctx) Extract(hi, lo int, a *Term) *Term {
	w := hi - lo + 1
	if lo == 0 && w == a.Sort.W {
		return a
	}
	if a.IsConst && a.Sort.W <= 64 {
		return c.BV(w, a.C>>uint(lo))
	}
	switch a.Op {
	case "zext":
		iw := a.Args[0].Sort.W
		if hi < iw {
			return c.Extract(hi, lo, a.Args[0])
		}
		if lo >= iw {
			return c.BV(w, 0)
		}
		if lo == 0 {
			return c.ZExt(w-iw, a.Args[0])
		}
	case "sext":
		iw := a.Args[0].Sort.W
		if hi < iw {
			return c.Extract(hi, lo, a.Args[0])
		}
	case "extract":
		return c.Extract(hi+a.P2, lo+a.P2, a.Args[0])
	case "concat":
		lw := a.Args[1].Sort.W
		if hi < lw {
			return c.Extract(hi, lo, a.Args[1])
		}
		if lo >= lw {
			return c.Extract(hi-lw, lo-lw, a.Args[0])
		}
	case "bvshl":
		// extract low bits of (x << k): if whole range below k -> 0
		if a.Args[1].IsConst {
			k := int(a.Args[1].C)
			if hi < k {
				return c.BV(w, 0)
			}
			if lo >= k && a.Args[0].Op == "zext" {
				return c.Extract(hi-k, lo-k, a.Args[0])
			}
		}
	case "bvlshr":
		if a.Args[1].IsConst {
			k := int(a.Args[1].C)
			if hi+k < a.Sort.W {
				return c.Extract(hi+k, lo+k, a.Args[0])
			}
		}
	case "bvor", "bvand", "bvxor":
		// distribute extraction over bitwise ops when it simplifies a side to a constant
		l := c.Extract(hi, lo, a.Args[0])
		r := c.Extract(hi, lo, a.Args[1])
		if l.IsConst || r.IsConst || l.size+r.size < a.size {
			return c.BVBin(a.Op, l, r)
		}
	}
	if a.Sort.W <= 64 && (a.Op == "concat" || a.Op == "zext") {
		ps := slicePieces(c.pieces(a), hi, lo)
		if len(ps) <= maxPieces {
			return c.fromPieces(ps)
		}
	}
	return c.mk("extract", BVSort(w), hi, lo, a)
}

func (c *Ctx) ZExt(n int, a *Term) *Term {
	if n == 0 {
		return a
	}
	if a.IsConst && a.Sort.W+n <= 64 {
		return c.BV(a.Sort.W+n, a.C)
	}
	if a.Op == "zext" {
		return c.ZExt(n+a.P1, a.Args[0])
	}
	return c.mk("zext", BVSort(a.Sort.W+n), n, 0, a)
}

func (c *Ctx) SExt(n int, a *Term) *Term {
	if n == 0 {
		return a
	}
	if a.IsConst && a.Sort.W+n <= 64 {
		return c.BV(a.Sort.W+n, uint64(sext64(a.C, a.Sort.W)))
	}
	if a.Op == "zext" {
		return c.ZExt(n+a.P1, a.Args[0])
	}
	return c.mk("sext", BVSort(a.Sort.W+n), n, 0, a)
}

func (c *Ctx) Concat(hi, lo *Term) *Term {
	if hi.IsConst && lo.IsConst && hi.Sort.W+lo.Sort.W <= 64 {
		return c.BV(hi.Sort.W+lo.Sort.W, hi.C<<uint(lo.Sort.W)|lo.C)
	}
	if hi.IsConst && hi.C == 0 && hi.Sort.W <= 64 {
		return c.ZExt(hi.Sort.W, lo)
	}
	return c.mk("concat", BVSort(hi.Sort.W+lo.Sort.W), 0, 0, hi, lo)
}

// App builds an application of a raw SMT operator (floating point etc.).
// opText is the full head, e.g. "fp.add RNE" or "(_ to_fp 8 24)".
func (c *Ctx) App(opText string, s Sort, args ...*Term) *Term {
	return c.mk("app:"+opText, s, 0, 0, args...)
}

// UF applies an uninterpreted function (declared on first use).
func (c *Ctx) UF(name string, s Sort, args ...*Term) *Term {
	if len(args) == 0 {
		return c.Var(name+"_0", s)
	}
	var as []string
	for _, a := range args {
		as = append(as, a.Sort.SMT())
	}
	full := fmt.Sprintf("%s_%d", name, len(args))
	if _, ok := c.UFs[full]; !ok {
		c.UFs[full] = fmt.Sprintf("(declare-fun %s (%s) %s)", full, strings.Join(as, " "), s.SMT())
		c.ufOrd = append(c.ufOrd, full)
	}
	return c.mk("uf:"+full, s, 0, 0, args...)
}

func (c *Ctx) UFDecls() []string {
	var out []string
	for _, n := range c.ufOrd {
		out = append(out, c.UFs[n])
	}
	return out
}

// Def returns the SMT-LIB text of the term body, referring to arguments by name.
func (t *Term) Def() string {
	switch t.Op {
	case "const":
		if t.Sort.K == KBool {
			if t.C == 1 {
				return "true"
			}
			return "false"
		}
		return fmt.Sprintf("(_ bv%d %d)", t.C, t.Sort.W)
	case "var":
		return smtName(t.Name)
	}
	var sb strings.Builder
	sb.WriteByte('(')
	switch {
	case t.Op == "extract":
		fmt.Fprintf(&sb, "(_ extract %d %d)", t.P1, t.P2)
	case t.Op == "zext":
		fmt.Fprintf(&sb, "(_ zero_extend %d)", t.P1)
	case t.Op == "sext":
		fmt.Fprintf(&sb, "(_ sign_extend %d)", t.P1)
	case strings.HasPrefix(t.Op, "app:"):
		sb.WriteString(t.Op[4:])
	case strings.HasPrefix(t.Op, "uf:"):
		sb.WriteString(t.Op[3:])
	default:
		sb.WriteString(t.Op)
	}
	for _, a := range t.Args {
		sb.WriteByte(' ')
		sb.WriteString(a.Ref())
	}
	sb.WriteByte(')')
	return sb.String()
}

// Ref is how other terms refer to t.
func (t *Term) Ref() string {
	switch t.Op {
	case "const", "var":
		return t.Def()
	}
	return "t" + strconv.Itoa(t.ID)
}

func smtName(n string) string {
	return "|" + strings.ReplaceAll(n, "|", "_") + "|"
}

// Eval evaluates t under an assignment of variables (by term ID). Only the
// core BV/Bool operators are supported; ok=false otherwise.
func (c *Ctx) Eval(t *Term, env map[int]uint64, memo map[int]uint64) (uint64, bool) {
	if t.IsConst {
		return t.C, true
	}
	if v, ok := memo[t.ID]; ok {
		return v, true
	}
	if t.Op == "var" {
		v, ok := env[t.ID]
		return v, ok
	}
	if t.Sort.K == KBV && t.Sort.W > 64 {
		return 0, false
	}
	vals := make([]uint64, len(t.Args))
	for i, a := range t.Args {
		if a.Sort.K == KBV && a.Sort.W > 64 {
			return 0, false
		}
		v, ok := c.Eval(a, env, memo)
		if !ok {
			return 0, false
		}
		vals[i] = v
	}
	b2u := func(b bool) uint64 {
		if b {
			return 1
		}
		return 0
	}
	var r uint64
	switch t.Op {
	case "not":
		r = 1 - vals[0]
	case "and":
		r = vals[0] & vals[1]
	case "or":
		r = vals[0] | vals[1]
	case "xor":
		r = vals[0] ^ vals[1]
	case "ite":
		if vals[0] == 1 {
			r = vals[1]
		} else {
			r = vals[2]
		}
	case "=":
		r = b2u(vals[0] == vals[1])
	case "extract":
		r = (vals[0] >> uint(t.P2)) & mask(t.P1-t.P2+1)
	case "zext":
		r = vals[0]
	case "sext":
		r = uint64(sext64(vals[0], t.Args[0].Sort.W)) & mask(t.Sort.W)
	case "concat":
		r = vals[0]<<uint(t.Args[1].Sort.W) | vals[1]
	case "bvnot":
		r = ^vals[0] & mask(t.Sort.W)
	case "bvneg":
		r = -vals[0] & mask(t.Sort.W)
	default:
		// binary bit-vector operators and comparisons only (floating-point and uninterpreted applications are not evaluated)
		if !strings.HasPrefix(t.Op, "bv") || len(t.Args) != 2 || t.Args[0].Sort.K != KBV || t.Args[1].Sort.K != KBV || t.Args[0].Sort.W <= 0 || t.Args[1].Sort.W <= 0 {
			return 0, false
		}
		w := t.Args[0].Sort.W
		a, b := c.BV(w, vals[0]), c.BV(w, vals[1])
		var ft *Term
		if t.Sort.K == KBool {
			ft = c.Cmp(t.Op, a, b)
		} else if strings.HasPrefix(t.Op, "bv") {
			ft = c.BVBin(t.Op, a, b)
		} else {
			return 0, false
		}
		if !ft.IsConst {
			return 0, false
		}
		r = ft.C
	}
	memo[t.ID] = r
	return r, true
}

var _ = bits.Len

// tryOrDisjoint merges a op b (op in or/add/xor) when the operands occupy disjoint bit positions.
func (c *Ctx) tryOrDisjoint(op string, a, b *Term) *Term {
	if a.Sort.W > 64 {
		return nil
	}
	pa, pb := c.pieces(a), c.pieces(b)
	if len(pa) == 1 && pa[0].src == a && len(pb) == 1 && pb[0].src == b {
		return nil
	}
	xa, xb := alignPieces(pa, pb)
	for i := range xa {
		x, y := xa[i], xb[i]
		zeroX := x.src == nil && x.c == 0
		zeroY := y.src == nil && y.c == 0
		if !zeroX && !zeroY {
			if op == "bvor" && x.src == nil && y.src == nil {
				continue
			}
			return nil
		}
	}
	m, ok := orPieces(xa, xb)
	if !ok {
		return nil
	}
	return c.fromPieces(m)
}
