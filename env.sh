# sourced by every script: offline toolchain that can load /repo (go.mod says go 1.25)
export PATH=/opt/veriftools/go1.26.8/bin:$PATH
export GOTOOLCHAIN=local GOFLAGS=-mod=mod GOPROXY=off GOSUMDB=off
