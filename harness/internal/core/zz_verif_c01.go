//go:build verif

package core

import (
	"github.com/scigolib/hdf5/internal/vrt"
)

// C01, large contiguous datasets: the reader fetches a contiguous block in growing steps (1 MiB, then doubling).
// For block sizes forked around the step boundaries (1 MiB .. 5 MiB + 3) at two addresses, the bytes returned at the marked
// positions (see below) are the bytes stored there; 8 of the markers are symbolic.
func VerifH_C01_contiguous_read_growth() {
	vrt.LoopBound(8000000)
	vrt.AllocBudget(1 << 26)
	const mib = 1 << 20
	size := []int{mib, mib + 1, 2 * mib, 2*mib + 5, 3*mib + 8192, 4 * mib, 5*mib + 3}[vrt.Choice(7)]
	addr := []int{0, 517}[vrt.Choice(2)]
	b := make([]byte, addr+size+64)
	// marked positions: 300 bytes on both sides of every MiB boundary, the first and the last 300 bytes, and every
	// 4099th byte in between; every other stored byte is zero, every marker is non-zero and depends on its position
	var marks []int
	for p := 0; p < size; p += 4099 {
		marks = append(marks, p)
	}
	for c := 0; c <= size; c += mib {
		for p := c - 300; p < c+300; p++ {
			if p >= 0 && p < size {
				marks = append(marks, p)
			}
		}
	}
	for p := size - 300; p < size; p++ {
		if p >= 0 {
			marks = append(marks, p)
		}
	}
	for _, p := range marks {
		b[addr+p] = byte(1 + (p*31+p>>10)%255)
	}
	sym := vrt.Bytes(8)
	pos := []int{mib - 1, mib, 2*mib - 1, 2 * mib, 3 * mib, 4*mib - 1, 4 * mib, size - 1}
	for k, p := range pos {
		if p < size {
			b[addr+p] = sym[k]
		}
	}
	got, err := readContiguousData(&verifFile{data: b}, uint64(addr), uint64(size), 1)
	vrt.AssertNoErr(err, "contiguous-read-ok")
	vrt.Assert(len(got) == size, "contiguous-read-length")
	if len(got) == size {
		for _, p := range marks {
			vrt.Assert(got[p] == b[addr+p], "contiguous-bytes-as-stored")
		}
	}
	vrt.Covered("contiguous-growth-compared")
}
