//go:build verif

package core

import (
	"encoding/binary"
	"io"

	"github.com/scigolib/hdf5/internal/vrt"
)

// C07: each message parser on an arbitrary buffer: length 0..N forked, every byte symbolic.
// Implicit obligations on every path: no index/slice out of range, no nil dereference, no division
// by zero, no explicit panic, no allocation above the budget from a size field read from the input.

func verifBufN() int {
	if vrt.Thorough() {
		return 40
	}
	return 20
}

// the two parsers with the most branching per byte get 28 instead of 40 bytes in the thorough tier
func verifBufN28() int {
	if vrt.Thorough() {
		return 28
	}
	return 20
}

func verifBuf(max int) []byte {
	n := vrt.Choice(max + 1)
	return vrt.Bytes(n)
}

func verifSB() *Superblock {
	sizes := [4]uint8{1, 2, 4, 8}
	sb := &Superblock{Version: 2, Endianness: binary.LittleEndian}
	if vrt.Thorough() {
		sb.OffsetSize = sizes[vrt.Choice(4)]
		sb.LengthSize = sizes[vrt.Choice(4)]
	} else {
		// quick tier: equal offset/length sizes only
		k := vrt.Choice(4)
		sb.OffsetSize, sb.LengthSize = sizes[k], sizes[k]
	}
	return sb
}

func verifSB8() *Superblock {
	return &Superblock{Version: 2, OffsetSize: 8, LengthSize: 8, Endianness: binary.LittleEndian}
}

func VerifH_C07_dataspace() {
	vrt.AllocBudget(1 << 16)
	data := verifBuf(verifBufN())
	ds, err := ParseDataspaceMessage(data)
	if err == nil {
		vrt.Assert(ds != nil, "dataspace-nil-without-error")
		_ = ds.TotalElements()
	}
	vrt.Covered("dataspace-parsed")
}

func VerifH_C07_datatype() {
	vrt.AllocBudget(1 << 16)
	data := verifBuf(verifBufN())
	dt, err := ParseDatatypeMessage(data)
	if err == nil {
		vrt.Assert(dt != nil, "datatype-nil-without-error")
		if dt.Class == DatatypeCompound {
			_, _ = ParseCompoundType(dt)
		}
	}
	vrt.Covered("datatype-parsed")
}

func VerifH_C07_layout() {
	vrt.AllocBudget(1 << 16)
	data := verifBuf(16)
	// stated bound: dimensionality byte (v3 chunked: data[2]) at most 3, so the per-dimension loop is enumerable
	vrt.Assume(len(data) < 3 || data[2] <= 3)
	sb := verifSB()
	l, err := ParseDataLayoutMessage(data, sb)
	if err == nil {
		vrt.Assert(l != nil, "layout-nil-without-error")
	}
	vrt.Covered("layout-parsed")
}

func VerifH_C07_filterpipeline() {
	vrt.AllocBudget(1 << 16)
	data := verifBuf(verifBufN28())
	// stated bound: at most 2 filters in the message (the filter count byte drives an allocation and a loop)
	vrt.Assume(len(data) < 2 || data[1] <= 2)
	fp, err := ParseFilterPipelineMessage(data)
	if err == nil {
		vrt.Assert(fp != nil, "pipeline-nil-without-error")
	}
	vrt.Covered("pipeline-parsed")
}

func VerifH_C07_attribute() {
	vrt.AllocBudget(1 << 16)
	data := verifBuf(verifBufN28())
	a, err := ParseAttributeMessage(data, binary.LittleEndian)
	if err == nil {
		vrt.Assert(a != nil, "attribute-nil-without-error")
	}
	vrt.Covered("attribute-parsed")
}

// the value decoder on a parsed attribute: datatype class (5) / size (7 values) forked, flags and the first dataspace extent arbitrary, the stored
// data is 0..8 arbitrary bytes: ReadValue returns a value or an error, never panics, never allocates from the extents alone
func VerifH_C07_attribute_value() {
	vrt.AllocBudget(1 << 16)
	classes := []DatatypeClass{DatatypeFixed, DatatypeFloat, DatatypeString, DatatypeVarLen, DatatypeCompound}
	dt := &DatatypeMessage{Class: classes[vrt.Choice(len(classes))], Version: 1, Size: []uint32{0, 1, 2, 4, 8, 16, 0x80000000}[vrt.Choice(7)], ClassBitField: vrt.U32() & 0xFFFFFF}
	rank := vrt.Choice(3)
	ds := &DataspaceMessage{Version: 1, Type: DataspaceSimple}
	if rank >= 1 {
		ds.Dimensions = append(ds.Dimensions, vrt.U64()) // any extent
	}
	if rank == 2 {
		ds.Dimensions = append(ds.Dimensions, uint64(1+vrt.Choice(3))) // (a second symbolic factor makes the product a 64x64 multiplication)
	}
	if rank == 0 {
		ds.Type = DataspaceScalar
	}
	a := &Attribute{Name: "a", Datatype: dt, Dataspace: ds, Data: verifBuf(8)}
	_, _ = a.ReadValue()
	vrt.Covered("attribute-value-decoded")
}

func VerifH_C07_attrinfo() {
	data := verifBuf(verifBufN())
	sb := verifSB()
	a, err := ParseAttributeInfoMessage(data, sb)
	if err == nil {
		vrt.Assert(a != nil, "attrinfo-nil-without-error")
	}
	vrt.Covered("attrinfo-parsed")
}

func VerifH_C07_link() {
	vrt.AllocBudget(1 << 16)
	n := 12
	if vrt.Thorough() {
		n = 16
	}
	data := verifBuf(n)
	sb := verifSB8()
	l, err := ParseLinkMessage(data, sb)
	if err == nil {
		vrt.Assert(l != nil, "link-nil-without-error")
	}
	vrt.Covered("link-parsed")
}

func VerifH_C07_linkinfo() {
	data := verifBuf(verifBufN())
	sb := verifSB()
	l, err := ParseLinkInfoMessage(data, sb)
	if err == nil {
		vrt.Assert(l != nil, "linkinfo-nil-without-error")
	}
	vrt.Covered("linkinfo-parsed")
}

func VerifH_C07_gheapref() {
	data := verifBuf(verifBufN())
	sizes := [4]int{1, 2, 4, 8}
	r, err := ParseGlobalHeapReference(data, sizes[vrt.Choice(4)])
	if err == nil {
		vrt.Assert(r != nil, "gheapref-nil-without-error")
	}
	vrt.Covered("gheapref-parsed")
}

func VerifH_C07_continuation() {
	data := verifBuf(verifBufN())
	sb := verifSB()
	_, _ = parseContinuationMessage(data, sb)
	vrt.Covered("continuation-parsed")
}

// reader-side filter decoders on arbitrary chunk bytes
func VerifH_C07_lzf_decompress() {
	vrt.AllocBudget(1 << 20)
	n := 5 // (6 and more: the solver gives up on the symbolic copy bounds of nested back references; same bound in both tiers)
	data := verifBuf(n)
	out, err := lzfDecompress(data)
	if err == nil {
		_ = len(out)
	}
	vrt.Covered("lzf-decoded")
}

func VerifH_C07_filters_apply() {
	vrt.AllocBudget(1 << 20)
	data := verifBuf(8)
	var f Filter
	if vrt.Bool() {
		f = Filter{ID: FilterShuffle, NumClientData: 1, ClientData: []uint32{vrt.U32()}}
	} else {
		f = Filter{ID: FilterFletcher}
	}
	fpm := &FilterPipelineMessage{Version: 2, NumFilters: 1, Filters: []Filter{f}}
	_, _ = fpm.ApplyFilters(data)
	vrt.Covered("filters-applied")
}

// nested compound datatype (version 3), depth forked: parsing work must stay proportional to the message size.
// The engine's step budget is the bound: a parse that needs more than it is reported (label bounded-parse-work).
func verifNestedCompound(depth int) []byte {
	// innermost member type: 4-byte fixed point
	inner := []byte{0x10, 0x08, 0x00, 0x00, 4, 0, 0, 0, 0, 0, 32, 0}
	size := uint32(4)
	msg := inner
	for d := 0; d < depth; d++ {
		// compound, version 3, as this library lays it out: header (class 6 | version 3 << 4, bit field = member
		// count, size), then properties = member count (4 bytes), and per member: name\0, byte offset (4 bytes), datatype
		hdr := []byte{0x36, 0x01, 0x00, 0x00, byte(size), byte(size >> 8), byte(size >> 16), byte(size >> 24)}
		props := []byte{1, 0, 0, 0, 'm', 0, 0, 0, 0, 0}
		props = append(props, msg...)
		msg = append(hdr, props...)
	}
	return msg
}

func VerifH_C07_datatype_nested() {
	depth := []int{1, 2, 8, 40}[vrt.Choice(4)]
	msg := verifNestedCompound(depth)
	// one symbolic byte in the innermost type's bit field
	msg[len(msg)-11] = vrt.U8()
	vrt.StepBudget(2000000)
	dt, err := ParseDatatypeMessage(msg)
	vrt.AssertNoErr(err, "nested-compound-parses")
	vrt.Assert(dt.Class == DatatypeCompound, "nested-compound-class")
	ct, err := ParseCompoundType(dt)
	vrt.AssertNoErr(err, "nested-compound-members-parse")
	vrt.Assert(len(ct.Members) == 1, "nested-compound-member-count")
	if depth > 1 && len(ct.Members) == 1 {
		vrt.Assert(ct.Members[0].Type.Class == DatatypeCompound, "nested-member-is-compound")
	}
	vrt.Covered("nested-parsed")
}

// ---- M tier: whole readers over an arbitrary file image (concrete signature, symbolic body) ----

type verifFile struct{ data []byte }

func (m *verifFile) ReadAt(p []byte, off int64) (int, error) {
	if off < 0 || off >= int64(len(m.data)) {
		return 0, io.EOF
	}
	n := copy(p, m.data[off:])
	if n < len(p) {
		return n, io.EOF
	}
	return n, nil
}

func verifImage(sig string, body, pad int) *verifFile {
	b := make([]byte, 0, len(sig)+body+pad)
	b = append(b, sig...)
	b = append(b, vrt.Bytes(body)...)
	b = append(b, make([]byte, pad)...)
	return &verifFile{data: b}
}

func VerifH_C07_file_superblock() {
	vrt.AllocBudget(1 << 30) // the library's own limit for a checked size (utils.MaxChunkSize)
	vrt.SampleSizes()
	f := verifImage(Signature, 40, 64)
	sb, err := ReadSuperblock(f)
	if err == nil {
		vrt.Assert(sb != nil, "superblock-nil-without-error")
		vrt.Covered("superblock-accepted")
	}
	vrt.Covered("superblock-read")
}

func VerifH_C07_file_globalheap() {
	vrt.AllocBudget(1 << 30) // the library's own limit for a checked size (utils.MaxChunkSize)
	vrt.SampleSizes()
	vrt.StepBudget(3000000)
	f := verifImage("GCOL", 28, 32)
	sizes := [2]int{4, 8}
	c, err := ReadGlobalHeapCollection(f, 0, sizes[vrt.Choice(2)])
	if err == nil {
		vrt.Assert(c != nil, "gheap-nil-without-error")
	}
	vrt.Covered("gheap-read")
}

// a collection of valid size (64 bytes, the whole image) whose object headers — id, reference count, 64-bit size —
// are arbitrary: the object walk must stay inside the collection
func VerifH_C07_file_globalheap_objects() {
	vrt.AllocBudget(1 << 30)
	vrt.StepBudget(3000000)
	b := []byte{'G', 'C', 'O', 'L', 1, 0, 0, 0, 64, 0, 0, 0, 0, 0, 0, 0}
	b = append(b, vrt.Bytes(48)...)
	f := &verifFile{data: b}
	c, err := ReadGlobalHeapCollection(f, 0, 8)
	if err == nil {
		vrt.Assert(c != nil, "gheap-nil-without-error")
		for _, o := range c.Objects {
			vrt.Assert(uint64(len(o.Data)) == o.Size, "gheap-object-size")
		}
	}
	vrt.Covered("gheap-read")
}

func VerifH_C07_file_objectheader_v2() {
	vrt.AllocBudget(1 << 30) // the library's own limit for a checked size (utils.MaxChunkSize)
	vrt.SampleSizes()
	vrt.StepBudget(3000000)
	f := verifImage("OHDR", 7, 64)
	sb := verifSB8()
	oh, err := ReadObjectHeader(f, 0, sb)
	if err == nil {
		vrt.Assert(oh != nil, "objectheader-nil-without-error")
	}
	vrt.Covered("objectheader-read")
}

func VerifH_C07_file_objectheader_v1() {
	vrt.AllocBudget(1 << 30) // the library's own limit for a checked size (utils.MaxChunkSize)
	vrt.SampleSizes()
	vrt.StepBudget(3000000)
	// version 1 header: byte 0 = 1; the rest symbolic (message count, sizes, a continuation message may point anywhere)
	f := verifImage("\x01", 39, 24)
	// stated bound: at most 2 messages in the first block (3 did not finish inside the thorough tier's time budget);
	// continuation blocks add their own
	vrt.Assume(f.data[3] == 0 && f.data[2] <= 2)
	sb := &Superblock{Version: 0, OffsetSize: 8, LengthSize: 8, Endianness: binary.LittleEndian}
	oh, err := ReadObjectHeader(f, 0, sb)
	if err == nil {
		vrt.Assert(oh != nil, "objectheader-nil-without-error")
	}
	vrt.Covered("objectheader-v1-read")
}

func VerifH_C07_file_btreev1() {
	vrt.AllocBudget(1 << 30) // the library's own limit for a checked size (utils.MaxChunkSize)
	vrt.SampleSizes()
	vrt.StepBudget(3000000)
	f := verifImage("TREE", 44, 64)
	node, err := ParseBTreeV1Node(f, 0, 8, 1, []uint64{uint64(vrt.U8())})
	if err == nil && node != nil {
		_, _ = node.CollectAllChunks(f, 8, []uint64{1})
	}
	vrt.Covered("btree-read")
}

// a chunk index node that announces the largest entry count (0xFFFF) and is fully present in the file (1.5 MiB image):
// the key table has one more key than entries
func VerifH_C07_file_btreev1_full_node_thorough() {
	vrt.LoopBound(200000)
	vrt.AllocBudget(1 << 30)
	const entries = 0xFFFF
	b := make([]byte, 24+entries*24+16)
	copy(b, "TREE")
	b[4], b[5] = 1, vrt.U8()&1 // chunk index node, level 0 or 1
	b[6], b[7] = 0xFF, 0xFF
	k := vrt.Bytes(8)
	copy(b[24+8:], k) // first key's coordinate
	f := &verifFile{data: b}
	n, err := ParseBTreeV1Node(f, 0, 8, 1, []uint64{1})
	if err == nil {
		vrt.Assert(n != nil && len(n.Keys) == entries+1 && len(n.Children) == entries, "btree-node-tables")
	}
	vrt.Covered("btree-full-node-parsed")
}

// deflate decoder (filter id 1) on an arbitrary buffer: the two header bytes are arbitrary; the deflate stream is
// 0..1 further arbitrary bytes. The standard library's inflater runs in the engine as ordinary code.
func VerifH_C07_deflate_decompress() {
	vrt.AllocBudget(1 << 20)
	vrt.LoopBound(70000)
	data := verifBuf(3)
	out, err := applyDeflate(data)
	if err == nil {
		_ = len(out)
	}
	vrt.Covered("deflate-decoded")
}

// version 1 object header whose only message is a continuation message with a forked block address (any offset 0..56 of
// the 64-byte file) and a forked block size (9 values): the blocks reachable through continuation messages may overlap the
// header, the message itself or each other. Reading must stay within a work budget proportional to the file.
func VerifH_C07_file_objectheader_v1_continuation() {
	vrt.AllocBudget(1 << 24)
	vrt.SampleSizes()
	vrt.LoopBound(1000000)
	vrt.StepBudget(60000) // an accepted or refused header of this size takes about 1500 steps
	b := make([]byte, 64)
	b[0] = 1
	b[2] = 1                                                               // one message
	b[4] = 1                                                               // reference count
	b[8] = 24                                                              // header data size
	b[16], b[18] = byte(MsgContinuation), 16                               // message type, data size
	addr := uint64(vrt.Choice(57))                                         // every byte offset at which a message header fits
	size := []uint64{0, 8, 16, 24, 32, 40, 48, 64, 1 << 40}[vrt.Choice(9)] // block sizes incl. one far beyond the file
	binary.LittleEndian.PutUint64(b[24:], addr)
	binary.LittleEndian.PutUint64(b[32:], size)
	// one more message of 16 data bytes: arbitrary type (low byte), and, if it is another continuation, an arbitrary
	// block address and size below 256
	b[40], b[42] = vrt.U8(), 16
	b[48], b[56] = vrt.U8(), vrt.U8()
	f := &verifFile{data: b}
	sb := &Superblock{Version: 0, OffsetSize: 8, LengthSize: 8, Endianness: binary.LittleEndian}
	oh, err := ReadObjectHeader(f, 0, sb)
	if err == nil {
		vrt.Assert(oh != nil, "objectheader-nil-without-error")
	}
	vrt.Covered("objectheader-v1-continuation-read")
}

// the guard in front of every result allocation of the dataset readers: for an arbitrary 64-bit element count and
// a forked element size, a nil return means that count*size does not wrap and fits into the bytes present (so the
// allocation that follows is bounded by the data actually read), and a non-positive size is refused.
func VerifH_C07_raw_data_size_guard() {
	raw := make([]byte, []int{0, 8, 24, 4096}[vrt.Choice(4)])
	size := []uint64{0, 1, 2, 3, 8, 16, 1 << 31, 1<<32 - 1}[vrt.Choice(8)]
	elements := vrt.U64()
	err := checkRawDataSize(raw, elements, size)
	if err == nil {
		vrt.Assert(size != 0, "zero-element-size-refused")
		if size != 0 {
			vrt.Assert(elements <= uint64(len(raw))/size, "accepted-count-fits-the-stored-bytes")
			vrt.Assert(elements <= uint64(len(raw)), "accepted-count-bounded-by-stored-bytes")
		}
		vrt.Covered("raw-size-accepted")
	}
	vrt.Covered("raw-size-checked")
}

// compound values: records of a forked size (0..12 bytes) with one member whose byte offset is an arbitrary 32-bit
// value and whose type is forked over {int32, int64, float32, float64, fixed string of 1/3/16 bytes}; 0..2 records of
// arbitrary bytes. A value or an error, never a panic.
func VerifH_C07_compound_values() {
	vrt.AllocBudget(1 << 16)
	size := uint32(vrt.Choice(13))
	var mt *DatatypeMessage
	switch vrt.Choice(5) {
	case 0:
		mt = &DatatypeMessage{Class: DatatypeFixed, Version: 1, Size: 4, ClassBitField: 0x08}
	case 1:
		mt = &DatatypeMessage{Class: DatatypeFixed, Version: 1, Size: 8, ClassBitField: 0x08}
	case 2:
		mt = &DatatypeMessage{Class: DatatypeFloat, Version: 1, Size: 4}
	case 3:
		mt = &DatatypeMessage{Class: DatatypeFloat, Version: 1, Size: 8}
	default:
		mt = &DatatypeMessage{Class: DatatypeString, Version: 1, Size: []uint32{1, 3, 16}[vrt.Choice(3)]}
	}
	ct := &CompoundType{Size: size, Members: []CompoundMember{{Name: "m", Offset: vrt.U32(), Type: mt}}}
	n := vrt.Choice(3)
	raw := vrt.Bytes(int(size) * n)
	vals, err := parseCompoundData(raw, ct, uint64(n), nil, verifSB8())
	if err == nil {
		vrt.Assert(len(vals) == n, "compound-record-count")
	}
	vrt.Covered("compound-values-decoded")
}
