//go:build verif

package core

import (
	"github.com/scigolib/hdf5/internal/vrt"
)

// C11, dataspace pair. rank 1..4 (forked), every dim / max-dim bit symbolic, max-dims present or not.
func VerifH_C11_dataspace() {
	rank := 1 + vrt.Choice(4)
	dims := make([]uint64, rank)
	for i := range dims {
		dims[i] = vrt.U64()
	}
	var maxDims []uint64
	if vrt.Bool() {
		maxDims = make([]uint64, rank)
		for i := range maxDims {
			maxDims[i] = vrt.U64()
		}
	}
	buf, err := EncodeDataspaceMessage(dims, maxDims)
	vrt.Assert(err == nil, "dataspace-encode-accepts-valid")
	ds, err := ParseDataspaceMessage(buf)
	vrt.Assert(err == nil, "dataspace-decode-accepts-encoded")
	vrt.Assert(len(ds.Dimensions) == rank, "dataspace-rank")
	for i := range dims {
		vrt.Assert(ds.Dimensions[i] == dims[i], "dataspace-dims")
	}
	vrt.Assert((ds.MaxDims != nil) == (maxDims != nil), "dataspace-maxdims-presence")
	if maxDims != nil && ds.MaxDims != nil {
		vrt.Assert(len(ds.MaxDims) == rank, "dataspace-maxdims-rank")
		for i := range maxDims {
			vrt.Assert(ds.MaxDims[i] == maxDims[i], "dataspace-maxdims")
		}
	}
	buf2, _ := EncodeDataspaceMessage(dims, maxDims)
	vrt.Assert(string(buf) == string(buf2), "dataspace-deterministic")
	vrt.Covered("dataspace-end")
}
