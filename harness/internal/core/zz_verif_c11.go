//go:build verif

package core

import (
	"encoding/binary"
	"io"

	"github.com/scigolib/hdf5/internal/vrt"
)

// ---- in-memory file for WriteTo/Read pairs ----

type verifMem struct{ data []byte }

func (m *verifMem) WriteAt(p []byte, off int64) (int, error) {
	end := int(off) + len(p)
	for len(m.data) < end {
		m.data = append(m.data, 0)
	}
	copy(m.data[off:], p)
	return len(p), nil
}

func (m *verifMem) ReadAt(p []byte, off int64) (int, error) {
	if off < 0 || int(off) >= len(m.data) {
		return 0, io.EOF
	}
	n := copy(p, m.data[off:])
	if n < len(p) {
		return n, io.EOF
	}
	return n, nil
}

// C11, dataspace pair. rank forked (1..6 quick incl. the maximum 32; 1..32 thorough), every dim / max-dim bit symbolic.
func VerifH_C11_dataspace() {
	var rank int
	if vrt.Thorough() {
		rank = 1 + vrt.Choice(32)
	} else {
		rank = []int{1, 2, 3, 4, 31, 32}[vrt.Choice(6)]
	}
	dims := make([]uint64, rank)
	for i := range dims {
		dims[i] = vrt.U64()
	}
	var maxDims []uint64
	if vrt.Bool() {
		maxDims = make([]uint64, rank)
		for i := range maxDims {
			maxDims[i] = vrt.U64()
		}
	}
	buf, err := EncodeDataspaceMessage(dims, maxDims)
	vrt.AssertNoErr(err, "dataspace-encode-accepts-valid")
	ds, err := ParseDataspaceMessage(buf)
	vrt.AssertNoErr(err, "dataspace-decode-accepts-encoded")
	vrt.Assert(len(ds.Dimensions) == rank, "dataspace-rank")
	for i := range dims {
		vrt.Assert(ds.Dimensions[i] == dims[i], "dataspace-dims")
	}
	vrt.Assert((ds.MaxDims != nil) == (maxDims != nil), "dataspace-maxdims-presence")
	if maxDims != nil && ds.MaxDims != nil {
		vrt.Assert(len(ds.MaxDims) == rank, "dataspace-maxdims-rank")
		for i := range maxDims {
			vrt.Assert(ds.MaxDims[i] == maxDims[i], "dataspace-maxdims")
		}
	}
	buf2, _ := EncodeDataspaceMessage(dims, maxDims)
	vrt.Assert(string(buf) == string(buf2), "dataspace-deterministic")
	vrt.Covered("dataspace-end")
}

// superblock v0/v2/v3: WriteTo -> ReadSuperblock
func VerifH_C11_superblock() {
	ver := []uint8{0, 2, 3}[vrt.Choice(3)]
	sb := &Superblock{Version: ver, OffsetSize: 8, LengthSize: 8, Endianness: binary.LittleEndian,
		BaseAddress: 0, RootGroup: vrt.U64(), RootBTreeAddr: vrt.U64(), RootHeapAddr: vrt.U64()}
	eof := vrt.U64()
	m := &verifMem{data: make([]byte, 256)} // a real file continues after the superblock
	vrt.AssertNoErr(sb.WriteTo(m, eof), "superblock-write-ok")
	got, err := ReadSuperblock(m)
	vrt.AssertNoErr(err, "superblock-decode-accepts-encoded")
	vrt.Assert(got.Version == ver, "superblock-version")
	vrt.Assert(got.OffsetSize == 8 && got.LengthSize == 8, "superblock-sizes")
	vrt.Assert(got.RootGroup == sb.RootGroup, "superblock-root-group")
	if ver == 0 {
		vrt.Assert(got.RootBTreeAddr == sb.RootBTreeAddr && got.RootHeapAddr == sb.RootHeapAddr, "superblock-v0-cached-addresses")
	}
	m2 := &verifMem{data: make([]byte, 256)}
	_ = sb.WriteTo(m2, eof)
	vrt.Assert(string(m.data) == string(m2.data), "superblock-deterministic")
	vrt.Covered("superblock-end")
}

// object header v2: WriteTo -> ReadObjectHeader, <=3 messages of symbolic type (from a set) and symbolic data (1..6 bytes)
func VerifH_C11_objectheader_v2() { verifObjectHeaderPair(2) }

// version 1 (written for superblock v0 files): messages are 8-byte aligned, lengths 1..9 cross the padding boundary
func VerifH_C11_objectheader_v1() { verifObjectHeaderPair(1) }

func verifObjectHeaderPair(version uint8) {
	n := 1 + vrt.Choice(2)
	if vrt.Thorough() {
		n = 1 + vrt.Choice(3)
	}
	ohw := &ObjectHeaderWriter{Version: version, Flags: 0, RefCount: 1}
	types := []MessageType{MsgDataspace, MsgDatatype, MsgAttribute}
	if version == 1 {
		types = []MessageType{MsgFillValue, MessageType(0x12), MessageType(0x0A)} // fill value, modification time, group info: carried as opaque data (a message the reader parses would fork on every data byte)
	}
	for i := 0; i < n; i++ {
		var l int
		if version == 1 {
			l = []int{1, 7, 8, 9}[vrt.Choice(4)]
		} else {
			l = 1 + vrt.Choice(4)
		}
		ohw.Messages = append(ohw.Messages, MessageWriter{Type: types[vrt.Choice(len(types))], Data: vrt.Bytes(l)})
	}
	m := &verifMem{data: make([]byte, 512)}
	addr := uint64(8 * vrt.Choice(3))
	sz, err := ohw.WriteTo(m, addr)
	vrt.AssertNoErr(err, "objectheader-write-ok")
	vrt.Assert(sz == ohw.Size(), "objectheader-size-equals-bytes-written")
	sb := &Superblock{Version: 2, OffsetSize: 8, LengthSize: 8, Endianness: binary.LittleEndian}
	if version == 1 {
		sb.Version = 0
	}
	oh, err := ReadObjectHeader(m, addr, sb)
	vrt.AssertNoErr(err, "objectheader-decode-accepts-encoded")
	if err != nil {
		return
	}
	vrt.Assert(len(oh.Messages) == n, "objectheader-message-count")
	if len(oh.Messages) == n {
		for i := range ohw.Messages {
			vrt.Assert(oh.Messages[i].Type == ohw.Messages[i].Type, "objectheader-message-type")
			if version == 1 {
				// v1 message data is stored padded to 8 bytes and the size field covers the data as written
				vrt.Assert(len(oh.Messages[i].Data) >= len(ohw.Messages[i].Data) &&
					string(oh.Messages[i].Data[:len(ohw.Messages[i].Data)]) == string(ohw.Messages[i].Data), "objectheader-message-data")
				continue
			}
			vrt.Assert(string(oh.Messages[i].Data) == string(ohw.Messages[i].Data), "objectheader-message-data")
		}
	}
	vrt.Covered("objectheader-end")
}

// link message: all flag combinations of {creation order, link type field, charset}, length-size 0..3, name 1..3 bytes,
// hard link address symbolic
func VerifH_C11_link() {
	sb := &Superblock{Version: 2, OffsetSize: 8, LengthSize: 8, Endianness: binary.LittleEndian}
	flags := uint8(vrt.Choice(4)) // size of length field
	if vrt.Bool() {
		flags |= LinkFlagCreationOrderBit
	}
	if vrt.Bool() {
		flags |= LinkFlagLinkTypeFieldBit
	}
	if vrt.Bool() {
		flags |= LinkFlagCharSetBit
	}
	nl := 1 + vrt.Choice(3)
	nb := vrt.Bytes(nl)
	for _, c := range nb {
		vrt.Assume(c != 0)
	}
	addr := make([]byte, 8)
	binary.LittleEndian.PutUint64(addr, vrt.U64())
	lm := &LinkMessage{Version: 1, Flags: flags, Type: LinkTypeHard, CreationOrder: vrt.U64(), CharSet: vrt.U8() & 1, Name: string(nb), LinkValue: addr}
	buf, err := EncodeLinkMessage(lm, sb)
	vrt.AssertNoErr(err, "link-encode-accepts-valid")
	got, err := ParseLinkMessage(buf, sb)
	vrt.AssertNoErr(err, "link-decode-accepts-encoded")
	vrt.Assert(got.Flags == flags, "link-flags")
	vrt.Assert(got.Name == lm.Name, "link-name")
	vrt.Assert(got.Type == LinkTypeHard, "link-type")
	if flags&LinkFlagCreationOrderBit != 0 {
		vrt.Assert(got.CreationOrder == lm.CreationOrder, "link-creation-order")
	}
	if flags&LinkFlagCharSetBit != 0 {
		vrt.Assert(got.CharSet == lm.CharSet, "link-charset")
	}
	vrt.Assert(string(got.LinkValue) == string(addr), "link-value")
	buf2, _ := EncodeLinkMessage(lm, sb)
	vrt.Assert(string(buf) == string(buf2), "link-deterministic")
	vrt.Covered("link-end")
}

// link info and attribute info messages
func VerifH_C11_linkinfo() {
	sb := &Superblock{Version: 2, OffsetSize: 8, LengthSize: 8, Endianness: binary.LittleEndian}
	lim := &LinkInfoMessage{Version: 0, Flags: uint8(vrt.Choice(4)), MaxCreationOrder: vrt.I64() & 0x7FFFFFFFFFFFFFFF, FractalHeapAddress: vrt.U64(), NameBTreeAddress: vrt.U64(), CreationOrderBTreeAddress: vrt.U64()}
	buf, err := EncodeLinkInfoMessage(lim, sb)
	vrt.AssertNoErr(err, "linkinfo-encode-accepts-valid")
	got, err := ParseLinkInfoMessage(buf, sb)
	vrt.AssertNoErr(err, "linkinfo-decode-accepts-encoded")
	vrt.Assert(got.Flags == lim.Flags, "linkinfo-flags")
	vrt.Assert(got.FractalHeapAddress == lim.FractalHeapAddress && got.NameBTreeAddress == lim.NameBTreeAddress, "linkinfo-addresses")
	if lim.Flags&1 != 0 {
		vrt.Assert(got.MaxCreationOrder == lim.MaxCreationOrder, "linkinfo-max-creation-order")
	}
	if lim.Flags&2 != 0 {
		vrt.Assert(got.CreationOrderBTreeAddress == lim.CreationOrderBTreeAddress, "linkinfo-creation-order-btree")
	}
	vrt.Covered("linkinfo-end")
}

func VerifH_C11_attrinfo() {
	sb := &Superblock{Version: 2, OffsetSize: 8, LengthSize: 8, Endianness: binary.LittleEndian}
	aim := &AttributeInfoMessage{Version: 0, Flags: 0, FractalHeapAddr: vrt.U64(), BTreeNameIndexAddr: vrt.U64()}
	buf, err := EncodeAttributeInfoMessage(aim, sb)
	vrt.AssertNoErr(err, "attrinfo-encode-accepts-valid")
	got, err := ParseAttributeInfoMessage(buf, sb)
	vrt.AssertNoErr(err, "attrinfo-decode-accepts-encoded")
	vrt.Assert(got.FractalHeapAddr == aim.FractalHeapAddr && got.BTreeNameIndexAddr == aim.BTreeNameIndexAddr, "attrinfo-addresses")
	vrt.Covered("attrinfo-end")
}

// layout message: contiguous (symbolic address/size) and chunked (rank 1..3, symbolic chunk extents < 2^32)
func VerifH_C11_layout() {
	sb := &Superblock{Version: 2, OffsetSize: 8, LengthSize: 8, Endianness: binary.LittleEndian}
	if vrt.Bool() {
		size, addr := vrt.U64(), vrt.U64()
		buf, err := EncodeLayoutMessage(LayoutContiguous, size, addr, sb, nil)
		vrt.AssertNoErr(err, "layout-encode-accepts-valid")
		got, err := ParseDataLayoutMessage(buf, sb)
		vrt.AssertNoErr(err, "layout-decode-accepts-encoded")
		vrt.Assert(got.Class == LayoutContiguous, "layout-class")
		vrt.Assert(got.DataAddress == addr && got.DataSize == size, "layout-contiguous-fields")
	} else {
		rank := 1 + vrt.Choice(3)
		cd := make([]uint64, rank)
		for i := range cd {
			cd[i] = uint64(vrt.U32())
			vrt.Assume(cd[i] != 0)
		}
		addr := vrt.U64()
		buf, err := EncodeLayoutMessage(LayoutChunked, 0, addr, sb, cd)
		vrt.AssertNoErr(err, "layout-encode-accepts-valid")
		got, err := ParseDataLayoutMessage(buf, sb)
		vrt.AssertNoErr(err, "layout-decode-accepts-encoded")
		vrt.Assert(got.Class == LayoutChunked, "layout-class")
		vrt.Assert(got.DataAddress == addr, "layout-chunked-address")
		vrt.Assert(len(got.ChunkSize) >= rank, "layout-chunk-rank")
		if len(got.ChunkSize) >= rank {
			for i := range cd {
				vrt.Assert(got.ChunkSize[i] == cd[i], "layout-chunk-dims")
			}
		}
	}
	vrt.Covered("layout-end")
}

// datatype message (fixed, float, string classes): class, size, bit field, properties
func VerifH_C11_datatype() {
	classes := []DatatypeClass{DatatypeFixed, DatatypeFloat, DatatypeString}
	cl := classes[vrt.Choice(3)]
	dt := &DatatypeMessage{Class: cl, Version: 1, Size: 1 + vrt.U32()&0xFF, ClassBitField: vrt.U32() & 0x00FFFFFF}
	buf, err := EncodeDatatypeMessage(dt)
	if err != nil {
		return // the encoder may refuse a combination; then there is nothing to invert
	}
	got, err := ParseDatatypeMessage(buf)
	vrt.AssertNoErr(err, "datatype-decode-accepts-encoded")
	vrt.Assert(got.Class == cl, "datatype-class")
	vrt.Assert(got.Size == dt.Size, "datatype-size")
	vrt.Assert(got.ClassBitField == dt.ClassBitField, "datatype-bitfield")
	buf2, _ := EncodeDatatypeMessage(dt)
	vrt.Assert(string(buf) == string(buf2), "datatype-deterministic")
	vrt.Covered("datatype-end")
}

// attribute message: name 1..3 bytes, int32 scalar / 1-D [2] payload symbolic
func VerifH_C11_attribute() {
	nl := 1 + vrt.Choice(3)
	nb := vrt.Bytes(nl)
	for _, c := range nb {
		vrt.Assume(c != 0)
	}
	n := 1 + vrt.Choice(2)
	data := vrt.Bytes(4 * n)
	dt := &DatatypeMessage{Class: DatatypeFixed, Version: 1, Size: 4, ClassBitField: 0x08, Properties: []byte{0, 0, 32, 0}}
	ds := &DataspaceMessage{Version: 1, Type: DataspaceSimple, Dimensions: []uint64{uint64(n)}}
	buf, err := EncodeAttributeMessage(string(nb), dt, ds, data)
	vrt.AssertNoErr(err, "attribute-encode-accepts-valid")
	got, err := ParseAttributeMessage(buf, binary.LittleEndian)
	vrt.AssertNoErr(err, "attribute-decode-accepts-encoded")
	vrt.Assert(got.Name == string(nb), "attribute-name")
	vrt.Assert(got.Datatype != nil && got.Datatype.Class == DatatypeFixed && got.Datatype.Size == 4, "attribute-datatype")
	vrt.Assert(got.Dataspace != nil && len(got.Dataspace.Dimensions) == 1 && got.Dataspace.Dimensions[0] == uint64(n), "attribute-dataspace")
	vrt.Assert(string(got.Data) == string(data), "attribute-data")
	vrt.Covered("attribute-end")
}

// compound datatype (layout versions 1 and 3): 1..2 members (3 thorough), names of 1..8 bytes (7/8: the v1 padding boundary),
// offsets symbolic, member types fixed-point / float of size 1..8 (flags symbolic), total size symbolic: the member
// list decodes back exactly
func verifCompoundPair(version int) {
	maxM := 2
	if vrt.Thorough() {
		maxM = 3
	}
	nm := 1 + vrt.Choice(maxM)
	pool := []string{"a", "xy", "seven_7", "eight__8", "nine____9"}
	rot := vrt.Choice(len(pool))
	fields := make([]CompoundFieldDef, nm)
	for i := range fields {
		sz := uint32(1) << uint(vrt.Choice(4))
		cl := DatatypeFixed
		props := []byte{0, 0, byte(8 * sz), 0}
		if vrt.Bool() && sz >= 4 {
			cl = DatatypeFloat
			props = []byte{0, 0, byte(8 * sz), 0, 23, 8, 0, 23, 127, 0, 0, 0}
		}
		fields[i] = CompoundFieldDef{
			Name:   pool[(i+rot)%len(pool)],
			Offset: vrt.U32() & 0xFFFF,
			Type:   &DatatypeMessage{Class: cl, Version: 1, Size: sz, ClassBitField: vrt.U32() & 0x0F, Properties: props},
		}
	}
	total := 1 + vrt.U32()&0xFFFF
	var buf []byte
	var err error
	if version == 1 {
		buf, err = EncodeCompoundDatatypeV1(total, fields)
	} else {
		buf, err = EncodeCompoundDatatypeV3(total, fields)
	}
	if err != nil {
		return // the encoder may refuse a combination; then there is nothing to invert
	}
	dt, err := ParseDatatypeMessage(buf)
	vrt.AssertNoErr(err, "datatype-decode-accepts-encoded")
	if err != nil {
		return
	}
	vrt.Assert(dt.Class == DatatypeCompound && dt.Size == total, "compound-class-and-size")
	ct, err := ParseCompoundType(dt)
	vrt.AssertNoErr(err, "compound-decode-accepts-encoded")
	if err != nil {
		return
	}
	vrt.Assert(ct.Size == total, "compound-size")
	vrt.Assert(len(ct.Members) == nm, "compound-member-count")
	if len(ct.Members) == nm {
		for i := range fields {
			m := ct.Members[i]
			vrt.Assert(m.Name == fields[i].Name, "compound-member-name")
			vrt.Assert(m.Offset == fields[i].Offset, "compound-member-offset")
			vrt.Assert(m.Type != nil && m.Type.Class == fields[i].Type.Class && m.Type.Size == fields[i].Type.Size &&
				m.Type.ClassBitField == fields[i].Type.ClassBitField, "compound-member-type")
		}
	}
	vrt.Covered("compound-end")
}

func VerifH_C11_compound_v1() { verifCompoundPair(1) }
func VerifH_C11_compound_v3() { verifCompoundPair(3) }

// attribute message with a name around the largest length its 16-bit size field can hold (65534 is the last that
// fits with the terminator): encoded messages decode back, longer names are refused with an error (never a panic)
func VerifH_C11_attribute_long_name() {
	vrt.LoopBound(300000)
	L := []int{300, 65533, 65534, 65535, 65536, 70000}[vrt.Choice(6)]
	nb := make([]byte, L)
	for i := range nb {
		nb[i] = byte('a' + i%26)
	}
	nb[0], nb[L-1] = 'A'+vrt.U8()%26, 'A'+vrt.U8()%26
	data := vrt.Bytes(4)
	dt := &DatatypeMessage{Class: DatatypeFixed, Version: 1, Size: 4, ClassBitField: 0x08, Properties: []byte{0, 0, 32, 0}}
	ds := &DataspaceMessage{Version: 1, Type: DataspaceSimple, Dimensions: []uint64{1}}
	buf, err := EncodeAttributeMessage(string(nb), dt, ds, data)
	if err != nil {
		vrt.Assert(L+1 > 0xFFFF, "attribute-encode-accepts-valid")
		vrt.Covered("attribute-end")
		return
	}
	got, err := ParseAttributeMessage(buf, binary.LittleEndian)
	vrt.AssertNoErr(err, "attribute-decode-accepts-encoded")
	if err == nil {
		vrt.Assert(got.Name == string(nb), "attribute-name")
		vrt.Assert(string(got.Data) == string(data), "attribute-data")
	}
	vrt.Covered("attribute-end")
}

// dataspace ranks above the format's range (the rank field is one byte; the format allows 32): either the encoder
// refuses, or what it produced decodes back to the same extents — never a panic, never another rank
func VerifH_C11_dataspace_rank_limits() {
	rank := []int{33, 255, 256, 257, 300}[vrt.Choice(5)]
	dims := make([]uint64, rank)
	for i := range dims {
		dims[i] = 1
	}
	dims[0], dims[rank-1] = vrt.U64(), vrt.U64()
	buf, err := EncodeDataspaceMessage(dims, nil)
	if err != nil {
		vrt.Covered("dataspace-end")
		return
	}
	ds, err := ParseDataspaceMessage(buf)
	if err == nil {
		vrt.Assert(len(ds.Dimensions) == rank, "dataspace-rank")
		if len(ds.Dimensions) == rank {
			vrt.Assert(ds.Dimensions[0] == dims[0] && ds.Dimensions[rank-1] == dims[rank-1], "dataspace-dims")
		}
	}
	vrt.Covered("dataspace-end")
}
