//go:build verif

package core

import (
	"encoding/binary"
	"errors"
	"io"

	"github.com/scigolib/hdf5/internal/vrt"
)

// C17 (second half): every individual read of the underlying file may fail. The file image is produced by the real
// writers; it is read once through a faithful reader and once through a reader that fails its k-th call (k forked)
// either with an error or with a short read: the faulty run must return an error or exactly the faithful result.

var verifErrIO = errors.New("injected I/O failure")

type verifFaulty struct {
	inner  *verifMem
	failAt int // call number that fails (0-based); -1 = never
	short  bool
	calls  int
}

func (f *verifFaulty) ReadAt(p []byte, off int64) (int, error) {
	k := f.calls
	f.calls++
	if k == f.failAt {
		if f.short && len(p) > 1 {
			n, _ := f.inner.ReadAt(p[:len(p)/2], off)
			return n, io.ErrUnexpectedEOF
		}
		return 0, verifErrIO
	}
	return f.inner.ReadAt(p, off)
}

func verifFaultPlan(maxCalls int) (failAt int, short bool) {
	return vrt.Choice(maxCalls), vrt.Bool()
}

func VerifH_C17_io_superblock() {
	ver := []uint8{0, 2}[vrt.Choice(2)]
	sb := &Superblock{Version: ver, OffsetSize: 8, LengthSize: 8, Endianness: binary.LittleEndian, RootGroup: vrt.U64(), RootBTreeAddr: vrt.U64(), RootHeapAddr: vrt.U64()}
	m := &verifMem{data: make([]byte, 256)}
	vrt.AssertNoErr(sb.WriteTo(m, vrt.U64()), "superblock-write-ok")
	good, err := ReadSuperblock(m)
	vrt.AssertNoErr(err, "faithful-read-ok")
	failAt, short := verifFaultPlan(2)
	bad, err := ReadSuperblock(&verifFaulty{inner: m, failAt: failAt, short: short})
	if err == nil {
		vrt.Assert(bad.Version == good.Version && bad.RootGroup == good.RootGroup && bad.RootBTreeAddr == good.RootBTreeAddr && bad.RootHeapAddr == good.RootHeapAddr &&
			bad.OffsetSize == good.OffsetSize && bad.LengthSize == good.LengthSize, "failing-read-gives-error-or-same-superblock")
	}
	vrt.Covered("superblock-fault-compared")
}

func VerifH_C17_io_objectheader_v2() {
	n := 1 + vrt.Choice(3)
	ohw := &ObjectHeaderWriter{Version: 2, Flags: 0}
	types := []MessageType{MsgDataspace, MsgDatatype, MsgDataLayout}
	for i := 0; i < n; i++ {
		ohw.Messages = append(ohw.Messages, MessageWriter{Type: types[i], Data: vrt.Bytes(2 + vrt.Choice(2))})
	}
	m := &verifMem{data: make([]byte, 512)}
	_, err := ohw.WriteTo(m, 16)
	vrt.AssertNoErr(err, "objectheader-write-ok")
	sb := &Superblock{Version: 2, OffsetSize: 8, LengthSize: 8, Endianness: binary.LittleEndian}
	good, err := ReadObjectHeader(m, 16, sb)
	vrt.AssertNoErr(err, "faithful-read-ok")
	failAt, short := verifFaultPlan(2 + 2*n)
	bad, err := ReadObjectHeader(&verifFaulty{inner: m, failAt: failAt, short: short}, 16, sb)
	if err == nil {
		vrt.Assert(len(bad.Messages) == len(good.Messages), "failing-read-silently-drops-messages")
		if len(bad.Messages) == len(good.Messages) {
			for i := range good.Messages {
				vrt.Assert(bad.Messages[i].Type == good.Messages[i].Type && string(bad.Messages[i].Data) == string(good.Messages[i].Data), "failing-read-gives-error-or-same-messages")
			}
		}
	}
	vrt.Covered("objectheader-fault-compared")
}

// verifCut is a file that ends after n bytes (a torn tail): reads past the end are short and return io.EOF.
type verifCut struct {
	inner *verifMem
	n     int
}

func (c *verifCut) ReadAt(p []byte, off int64) (int, error) {
	if int(off) >= c.n {
		return 0, io.EOF
	}
	end := int(off) + len(p)
	if end <= c.n {
		return c.inner.ReadAt(p, off)
	}
	k, _ := c.inner.ReadAt(p[:c.n-int(off)], off)
	return k, io.EOF
}

// a superblock file cut at every length, read right after another handle read a different file through the same
// buffer pool: error, or exactly the intact answer — never fields taken from the other file's recycled buffer (C17, C18a)
func VerifH_C17_io_superblock_cut_after_other_handle() {
	ver := []uint8{0, 2}[vrt.Choice(2)]
	mk := func() (*verifMem, *Superblock) {
		sb := &Superblock{Version: ver, OffsetSize: 8, LengthSize: 8, Endianness: binary.LittleEndian, RootGroup: vrt.U64(), RootBTreeAddr: vrt.U64(), RootHeapAddr: vrt.U64()}
		m := &verifMem{data: make([]byte, 160)}
		vrt.AssertNoErr(sb.WriteTo(m, vrt.U64()), "superblock-write-ok")
		return m, sb
	}
	mine, _ := mk()
	other, _ := mk()
	good, err := ReadSuperblock(mine)
	vrt.AssertNoErr(err, "faithful-read-ok")
	_, err = ReadSuperblock(other) // another handle uses (and returns) the pooled buffer
	vrt.AssertNoErr(err, "other-handle-read-ok")
	n := vrt.Choice(128)
	bad, err := ReadSuperblock(&verifCut{inner: mine, n: n})
	if err == nil {
		vrt.Assert(bad.Version == good.Version && bad.RootGroup == good.RootGroup && bad.OffsetSize == good.OffsetSize && bad.LengthSize == good.LengthSize, "cut-file-gives-error-or-same-superblock")
		vrt.Assert(bad.RootBTreeAddr == good.RootBTreeAddr && bad.RootHeapAddr == good.RootHeapAddr, "cut-file-fields-not-from-recycled-buffer")
	}
	vrt.Covered("superblock-cut-compared")
}
