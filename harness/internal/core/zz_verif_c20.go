//go:build verif

package core

import (
	"math"

	"github.com/scigolib/hdf5/internal/vrt"
)

// C20, bfloat16: all 2^32 float32 bit patterns (one symbolic 32-bit input).
// Reference = IEEE round-to-nearest-even narrowing defined on the bit pattern.
func VerifH_C20_bf16_encode() {
	bits := vrt.U32()
	f := math.Float32frombits(bits)
	got := uint16(Float32ToBFloat16(f))
	exp := (bits >> 23) & 0xFF
	mant := bits & 0x7FFFFF
	sign := uint16(bits >> 31)
	if exp == 0xFF && mant != 0 {
		// NaN must stay NaN with the same sign
		vrt.Assert((got>>7)&0xFF == 0xFF && got&0x7F != 0, "bf16-nan-stays-nan")
		vrt.Assert(got>>15 == sign, "bf16-nan-sign")
		return
	}
	upper := bits >> 16
	lower := bits & 0xFFFF
	if lower > 0x8000 || (lower == 0x8000 && upper&1 == 1) {
		upper++
	}
	vrt.Assert(got == uint16(upper), "bf16-nearest-even")
	// a number never becomes NaN
	vrt.Assert(!((got>>7)&0xFF == 0xFF && got&0x7F != 0), "bf16-number-not-nan")
	vrt.Assert(got>>15 == sign, "bf16-sign-kept")
}

// all 65,536 codes: code -> float32 -> code is the identity (NaN codes stay NaN), bytes round-trip.
func VerifH_C20_bf16_codes() {
	code := vrt.U16()
	b := BFloat16(code)
	f := b.ToFloat32()
	back := uint16(Float32ToBFloat16(f))
	isNaN := (code>>7)&0xFF == 0xFF && code&0x7F != 0
	if isNaN {
		vrt.Assert((back>>7)&0xFF == 0xFF && back&0x7F != 0, "bf16-code-nan-roundtrip")
	} else {
		vrt.Assert(back == code, "bf16-code-roundtrip")
	}
	vrt.Assert(math.Float32bits(f) == uint32(code)<<16, "bf16-decode-exact")
	enc := b.Encode()
	vrt.Assert(len(enc) == 2, "bf16-encode-len")
	vrt.Assert(uint16(DecodeBFloat16(enc)) == code, "bf16-bytes-roundtrip")
}

// monotone: f <= g (both non-NaN) => decode(encode f) <= decode(encode g)
func VerifH_C20_bf16_monotone() {
	a, b := vrt.U32(), vrt.U32()
	fa, fb := math.Float32frombits(a), math.Float32frombits(b)
	vrt.Assume(fa == fa && fb == fb) // not NaN
	vrt.Assume(fa <= fb)
	ra := Float32ToBFloat16(fa).ToFloat32()
	rb := Float32ToBFloat16(fb).ToFloat32()
	vrt.Assert(ra <= rb, "bf16-monotone")
}

// ---- FP8 ----

func verifIsNaN32(f float32) bool { return f != f }

// all 256 codes: decode -> encode is the identity (NaN codes stay NaN). The code space is enumerated completely
// by forking (a symbolic code byte sends every query through z3's floating-point theory and times out).
func VerifH_C20_e4m3_codes() {
	code := uint8(vrt.Choice(256)) // all 256 codes, one path each (complete enumeration of the code space)
	f := FP8E4M3(code).ToFloat32()
	back := uint8(Float32ToFP8E4M3(f))
	if verifIsNaN32(f) {
		vrt.Assert(verifIsNaN32(FP8E4M3(back).ToFloat32()), "e4m3-nan-code-stays-nan")
		return
	}
	if code == 0x80 {
		vrt.Assert(back == code, "e4m3-negative-zero-code-roundtrip") // known: the decoder's "-0.0" literal is +0 in Go
		return
	}
	vrt.Assert(back == code, "e4m3-code-roundtrip")
}

func VerifH_C20_e5m2_codes() {
	code := uint8(vrt.Choice(256))
	f := FP8E5M2(code).ToFloat32()
	back := uint8(Float32ToFP8E5M2(f))
	if verifIsNaN32(f) {
		vrt.Assert(verifIsNaN32(FP8E5M2(back).ToFloat32()), "e5m2-nan-code-stays-nan")
		return
	}
	if code == 0x80 {
		vrt.Assert(back == code, "e5m2-negative-zero-code-roundtrip")
		return
	}
	vrt.Assert(back == code, "e5m2-code-roundtrip")
}

// verifFP8Encode checks one float32 -> FP8 conversion against the decoder's own table of
// representable values (all 256 codes decoded concretely): NaN<->NaN, nearest with ties to even.
func verifFP8Encode(prefix string, bits uint32, enc func(float32) uint8, dec func(uint8) float32, mantBits uint) {
	var tab [256]float32
	for i := 0; i < 256; i++ {
		tab[i] = dec(uint8(i))
	}
	f := math.Float32frombits(bits)
	// fork over the feasible result codes (the solver enumerates them; at most 2^mantBits+2 per exponent)
	code := uint8(vrt.Concretize(uint64(enc(f)), 24))
	r := tab[code]
	if verifIsNaN32(f) {
		vrt.Assert(verifIsNaN32(r), prefix+"-nan-stays-nan")
		return
	}
	vrt.Assert(!verifIsNaN32(r), prefix+"-number-not-nan")
	if verifIsNaN32(r) {
		return
	}
	// sign is kept
	vrt.Assert(code>>7 == uint8(bits>>31), prefix+"-sign-kept")
	mag := code & 0x7F
	maxFinite := uint8(0x7F) - (1 << mantBits) // largest code below the exp=all-ones block
	a := math.Abs(float64(f))
	rv := math.Abs(float64(r))
	if mag > maxFinite {
		// result is infinity: only allowed when |f| is at least half a step above the largest finite value
		top := math.Abs(float64(tab[maxFinite]))
		prev := math.Abs(float64(tab[maxFinite-1]))
		vrt.Assert(a >= top+(top-prev)/2, prefix+"-overflow-only-beyond-max")
		return
	}
	// neighbours in magnitude order (sign-magnitude codes are ordered like their values)
	if mag > 0 {
		lo := math.Abs(float64(tab[mag-1]))
		mid := (lo + rv) / 2
		vrt.Assert(a >= mid, prefix+"-nearest-from-below")
		if a == mid {
			vrt.Assert(mag&1 == 0, prefix+"-tie-to-even-below")
		}
	}
	if mag < maxFinite {
		hi := math.Abs(float64(tab[mag+1]))
		mid := (rv + hi) / 2
		if mag&(1<<mantBits-1) == 1<<mantBits-1 {
			// known finding: a mantissa that rounds up past its maximum is clamped instead of carried into the exponent
			vrt.Assert(a <= mid, prefix+"-nearest-from-above-at-mantissa-max")
		} else {
			vrt.Assert(a <= mid, prefix+"-nearest-from-above")
		}
		if a == mid {
			vrt.Assert(mag&1 == 0, prefix+"-tie-to-even-above")
		}
	} else {
		top := rv
		prev := math.Abs(float64(tab[maxFinite-1]))
		vrt.Assert(a < top+(top-prev)/2 || math.IsInf(a, 1) == false && a <= top+(top-prev)/2, prefix+"-saturation-range")
	}
}

// verifF32 builds a float32 bit pattern with a concrete (forked) exponent byte in [lo,hi) and symbolic
// sign and mantissa: the 2^32 patterns are covered by the union of the exponent ranges below.
func verifF32(lo, hi int) uint32 {
	e := uint32(lo + vrt.Choice(hi-lo))
	return (vrt.U32()&1)<<31 | e<<23 | vrt.U32()&0x7FFFFF
}

func verifE4M3(lo, hi int) {
	verifFP8Encode("e4m3", verifF32(lo, hi),
		func(f float32) uint8 { return uint8(Float32ToFP8E4M3(f)) },
		func(c uint8) float32 { return FP8E4M3(c).ToFloat32() }, 3)
}

func verifE5M2(lo, hi int) {
	verifFP8Encode("e5m2", verifF32(lo, hi),
		func(f float32) uint8 { return uint8(Float32ToFP8E5M2(f)) },
		func(c uint8) float32 { return FP8E5M2(c).ToFloat32() }, 2)
}

// E4M3 encodes biased float32 exponents 117..135 (2^-10 .. 2^8) non-trivially, E5M2 109..143. One harness per
// exponent so that they run in parallel; together they cover all 2^32 bit patterns (since the encoders were rewritten
// on integer arithmetic the queries no longer go through z3's floating-point theory and every exponent runs in the quick tier).
func VerifH_C20_e4m3_encode_lo() { verifE4M3(0, 116) }
func VerifH_C20_e4m3_encode_hi() { verifE4M3(137, 256) }
func VerifH_C20_e5m2_encode_lo() { verifE5M2(0, 108) }
func VerifH_C20_e5m2_encode_hi() { verifE5M2(145, 256) }
func VerifH_C20_e4m3_encode_x116() { verifE4M3(116, 117) }
func VerifH_C20_e4m3_encode_x117() { verifE4M3(117, 118) }
func VerifH_C20_e4m3_encode_x118() { verifE4M3(118, 119) }
func VerifH_C20_e4m3_encode_x119() { verifE4M3(119, 120) }
func VerifH_C20_e4m3_encode_x120() { verifE4M3(120, 121) }
func VerifH_C20_e4m3_encode_x121() { verifE4M3(121, 122) }
func VerifH_C20_e4m3_encode_x122() { verifE4M3(122, 123) }
func VerifH_C20_e4m3_encode_x123() { verifE4M3(123, 124) }
func VerifH_C20_e4m3_encode_x124() { verifE4M3(124, 125) }
func VerifH_C20_e4m3_encode_x125() { verifE4M3(125, 126) }
func VerifH_C20_e4m3_encode_x126() { verifE4M3(126, 127) }
func VerifH_C20_e4m3_encode_x127() { verifE4M3(127, 128) }
func VerifH_C20_e4m3_encode_x128() { verifE4M3(128, 129) }
func VerifH_C20_e4m3_encode_x129() { verifE4M3(129, 130) }
func VerifH_C20_e4m3_encode_x130() { verifE4M3(130, 131) }
func VerifH_C20_e4m3_encode_x131() { verifE4M3(131, 132) }
func VerifH_C20_e4m3_encode_x132() { verifE4M3(132, 133) }
func VerifH_C20_e4m3_encode_x133() { verifE4M3(133, 134) }
func VerifH_C20_e4m3_encode_x134() { verifE4M3(134, 135) }
func VerifH_C20_e4m3_encode_x135() { verifE4M3(135, 136) }
func VerifH_C20_e4m3_encode_x136() { verifE4M3(136, 137) }
func VerifH_C20_e5m2_encode_x108() { verifE5M2(108, 109) }
func VerifH_C20_e5m2_encode_x109() { verifE5M2(109, 110) }
func VerifH_C20_e5m2_encode_x110() { verifE5M2(110, 111) }
func VerifH_C20_e5m2_encode_x111() { verifE5M2(111, 112) }
func VerifH_C20_e5m2_encode_x112() { verifE5M2(112, 113) }
func VerifH_C20_e5m2_encode_x113() { verifE5M2(113, 114) }
func VerifH_C20_e5m2_encode_x114() { verifE5M2(114, 115) }
func VerifH_C20_e5m2_encode_x115() { verifE5M2(115, 116) }
func VerifH_C20_e5m2_encode_x116() { verifE5M2(116, 117) }
func VerifH_C20_e5m2_encode_x117() { verifE5M2(117, 118) }
func VerifH_C20_e5m2_encode_x118() { verifE5M2(118, 119) }
func VerifH_C20_e5m2_encode_x119() { verifE5M2(119, 120) }
func VerifH_C20_e5m2_encode_x120() { verifE5M2(120, 121) }
func VerifH_C20_e5m2_encode_x121() { verifE5M2(121, 122) }
func VerifH_C20_e5m2_encode_x122() { verifE5M2(122, 123) }
func VerifH_C20_e5m2_encode_x123() { verifE5M2(123, 124) }
func VerifH_C20_e5m2_encode_x124() { verifE5M2(124, 125) }
func VerifH_C20_e5m2_encode_x125() { verifE5M2(125, 126) }
func VerifH_C20_e5m2_encode_x126() { verifE5M2(126, 127) }
func VerifH_C20_e5m2_encode_x127() { verifE5M2(127, 128) }
func VerifH_C20_e5m2_encode_x128() { verifE5M2(128, 129) }
func VerifH_C20_e5m2_encode_x129() { verifE5M2(129, 130) }
func VerifH_C20_e5m2_encode_x130() { verifE5M2(130, 131) }
func VerifH_C20_e5m2_encode_x131() { verifE5M2(131, 132) }
func VerifH_C20_e5m2_encode_x132() { verifE5M2(132, 133) }
func VerifH_C20_e5m2_encode_x133() { verifE5M2(133, 134) }
func VerifH_C20_e5m2_encode_x134() { verifE5M2(134, 135) }
func VerifH_C20_e5m2_encode_x135() { verifE5M2(135, 136) }
func VerifH_C20_e5m2_encode_x136() { verifE5M2(136, 137) }
func VerifH_C20_e5m2_encode_x137() { verifE5M2(137, 138) }
func VerifH_C20_e5m2_encode_x138() { verifE5M2(138, 139) }
func VerifH_C20_e5m2_encode_x139() { verifE5M2(139, 140) }
func VerifH_C20_e5m2_encode_x140() { verifE5M2(140, 141) }
func VerifH_C20_e5m2_encode_x141() { verifE5M2(141, 142) }
func VerifH_C20_e5m2_encode_x142() { verifE5M2(142, 143) }
func VerifH_C20_e5m2_encode_x143() { verifE5M2(143, 144) }
func VerifH_C20_e5m2_encode_x144() { verifE5M2(144, 145) }
