//go:build verif

package core

import (
	"math"

	"github.com/scigolib/hdf5/internal/vrt"
)

// C20, bfloat16: all 2^32 float32 bit patterns (one symbolic 32-bit input).
// Reference = IEEE round-to-nearest-even narrowing defined on the bit pattern.
func VerifH_C20_bf16_encode() {
	bits := vrt.U32()
	f := math.Float32frombits(bits)
	got := uint16(Float32ToBFloat16(f))
	exp := (bits >> 23) & 0xFF
	mant := bits & 0x7FFFFF
	sign := uint16(bits >> 31)
	if exp == 0xFF && mant != 0 {
		// NaN must stay NaN with the same sign
		vrt.Assert((got>>7)&0xFF == 0xFF && got&0x7F != 0, "bf16-nan-stays-nan")
		vrt.Assert(got>>15 == sign, "bf16-nan-sign")
		return
	}
	upper := bits >> 16
	lower := bits & 0xFFFF
	if lower > 0x8000 || (lower == 0x8000 && upper&1 == 1) {
		upper++
	}
	vrt.Assert(got == uint16(upper), "bf16-nearest-even")
	// a number never becomes NaN
	vrt.Assert(!((got>>7)&0xFF == 0xFF && got&0x7F != 0), "bf16-number-not-nan")
	vrt.Assert(got>>15 == sign, "bf16-sign-kept")
}

// all 65,536 codes: code -> float32 -> code is the identity (NaN codes stay NaN), bytes round-trip.
func VerifH_C20_bf16_codes() {
	code := vrt.U16()
	b := BFloat16(code)
	f := b.ToFloat32()
	back := uint16(Float32ToBFloat16(f))
	isNaN := (code>>7)&0xFF == 0xFF && code&0x7F != 0
	if isNaN {
		vrt.Assert((back>>7)&0xFF == 0xFF && back&0x7F != 0, "bf16-code-nan-roundtrip")
	} else {
		vrt.Assert(back == code, "bf16-code-roundtrip")
	}
	vrt.Assert(math.Float32bits(f) == uint32(code)<<16, "bf16-decode-exact")
	enc := b.Encode()
	vrt.Assert(len(enc) == 2, "bf16-encode-len")
	vrt.Assert(uint16(DecodeBFloat16(enc)) == code, "bf16-bytes-roundtrip")
}

// monotone: f <= g (both non-NaN) => decode(encode f) <= decode(encode g)
func VerifH_C20_bf16_monotone() {
	a, b := vrt.U32(), vrt.U32()
	fa, fb := math.Float32frombits(a), math.Float32frombits(b)
	vrt.Assume(fa == fa && fb == fb) // not NaN
	vrt.Assume(fa <= fb)
	ra := Float32ToBFloat16(fa).ToFloat32()
	rb := Float32ToBFloat16(fb).ToFloat32()
	vrt.Assert(ra <= rb, "bf16-monotone")
}
