//go:build verif

package rebalancing

import (
	"context"
	"time"

	"github.com/scigolib/hdf5/internal/structures"
	"github.com/scigolib/hdf5/internal/vrt"
)

// verifBTree adapts a real structures.WritableBTreeV2 (with its real background ticker goroutine) to the interface the
// SmartRebalancer drives; the library has no adapter of its own. GetFileSize is a schedule point: the other goroutines
// may run first there (it is called in the middle of the background evaluation and of RecordOperation).
type verifBTree struct {
	bt     *structures.WritableBTreeV2
	size   uint64
	starts int
	stops  int
}

func (b *verifBTree) EnableLazyRebalancing(c structures.LazyRebalancingConfig) error {
	b.bt.EnableLazyRebalancing(c)
	return nil
}

func (b *verifBTree) EnableIncrementalRebalancing(c structures.IncrementalRebalancingConfig) error {
	if !b.bt.IsLazyRebalancingEnabled() {
		b.bt.EnableLazyRebalancing(structures.DefaultLazyConfig())
	}
	return b.bt.EnableIncrementalRebalancing(c)
}

func (b *verifBTree) DisableRebalancing() error { return b.bt.DisableLazyRebalancing() }

func (b *verifBTree) StartBackgroundRebalancing(context.Context) error { return nil }

func (b *verifBTree) StopBackgroundRebalancing() error { return b.bt.StopIncrementalRebalancing() }

func (b *verifBTree) GetFileSize() uint64 {
	vrt.SchedPoint("GetFileSize")
	return b.size
}

// C18 smart rebalancer lifecycle under every schedule of {foreground, monitor goroutine, index ticker goroutine}
// that the model distinguishes (see DESIGN: schedule mode): Start, optional foreground calls, Stop.
// Stop returns (no deadlock), no goroutine outlives it, the index's background rebalancing is off afterwards.
func verifSmartLifecycle(workload int, foreground bool) { verifSmartLifecycleFg(workload, foreground, 0) }

// fgKind: 0 = RecordOperation + GetStats, 1 = a forced Evaluate, 2 = progress / statistics queries on the index itself
func verifSmartLifecycleFg(workload int, foreground bool, fgKind int) {
	vrt.LoopBound(200000)
	b := &verifBTree{bt: structures.NewWritableBTreeV2(4096), size: 1 << 30}
	sr := NewSmartRebalancer(b, WithReevalInterval(time.Microsecond))
	for i := 0; i < 100; i++ {
		op := OpWrite
		switch workload {
		case 0: // mixed on a large file: incremental
			if i%10 == 9 {
				op = OpDelete
			} else if i%2 == 1 {
				op = OpRead
			}
		case 1: // append only: none
		default: // delete heavy: lazy
			if i%2 == 1 {
				op = OpDelete
			}
		}
		vrt.AssertNoErr(sr.RecordOperation(op), "record-ok")
	}
	vrt.AssertNoErr(sr.Start(context.Background()), "start-ok")
	vrt.Assert(sr.Start(context.Background()) != nil, "second-start-refused")
	// natively (race-detector replay) the foreground calls are repeated for 40 ms so that ticks happen meanwhile
	deadline := time.Now().Add(40 * time.Millisecond)
	for k := 0; foreground && (k == 0 || (!vrt.Symbolic() && time.Now().Before(deadline))); k++ {
		switch fgKind {
		case 0:
			_ = sr.RecordOperation(OpWrite)
			_ = sr.GetStats()
		case 1:
			_, _ = sr.Evaluate()
			_ = sr.GetMetrics()
		default:
			_, _ = b.bt.GetIncrementalRebalancingProgress()
			_, _, _ = b.bt.GetLazyRebalancingStats()
			_ = b.bt.IsIncrementalRebalancingEnabled()
		}
	}
	vrt.AssertNoErr(sr.Stop(), "stop-returns")
	vrt.AssertNoGoroutines("no-goroutine-outlives-stop")
	vrt.Assert(!b.bt.IsIncrementalRebalancingEnabled(), "index-background-rebalancing-stopped")
	vrt.Assert(!sr.GetStats().Started, "stopped-state-reported")
	vrt.AssertNoErr(sr.Stop(), "second-stop-is-a-no-op")
	vrt.Covered("smart-lifecycle-done")
}

func VerifH_C18_smart_stop_incremental_sched() { verifSmartLifecycle(0, false) }
func VerifH_C18_smart_stop_foreground_sched()  { verifSmartLifecycle(0, true) }
func VerifH_C18_smart_evaluate_sched()         { verifSmartLifecycleFg(0, true, 1) }
func VerifH_C18_smart_index_queries_sched()    { verifSmartLifecycleFg(0, true, 2) }
func VerifH_C18_smart_stop_none_sched()        { verifSmartLifecycle(1, true) }
func VerifH_C18_smart_stop_lazy_sched()        { verifSmartLifecycle(2, true) }
