//go:build verif

package rebalancing

import (
	"math"
	"time"

	"github.com/scigolib/hdf5/internal/vrt"
)

type verifClock struct{ t time.Time }

func (c *verifClock) Now() time.Time { return c.t }

func verifAllowed(list []Mode, m Mode) bool {
	if len(list) == 0 {
		return true
	}
	for _, x := range list {
		if x == m {
			return true
		}
	}
	return false
}

// C19 selector, one inductive step: arbitrary workload features (every float64 bit pattern incl. NaN/Inf), any
// workload type, any validated constraints, arbitrary pre-state of the stability memory (invariant: a remembered
// mode passed the allowed-modes gate), clock >= last decision time. Checks the three gates and the confidence range.
func verifSelectorStep(wt WorkloadType, stability bool) {
	f := WorkloadFeatures{
		DeleteRatio:   math.Float64frombits(vrt.U64()),
		WriteRatio:    math.Float64frombits(vrt.U64()),
		ReadRatio:     math.Float64frombits(vrt.U64()),
		// rate and file size only feed the informational "factors"; they are concretised to boundary values
		OperationRate: []float64{5, math.NaN()}[vrt.Choice(2)],
		BurstDetected: vrt.Bool(),
		FileSize:      []uint64{mediumFileThreshold, mediumFileThreshold + 1}[vrt.Choice(2)],
		SampleSize:    vrt.Int(),
	}
	minConf := math.Float64frombits(vrt.U64())
	vrt.Assume(minConf >= 0 && minConf <= 1)
	period := time.Duration(vrt.I64())
	vrt.Assume(period >= 0)
	var allowed []Mode
	nAllowed := 6
	if stability {
		nAllowed = 2 // the stability harness uses "all allowed" and {lazy}
	}
	switch vrt.Choice(nAllowed) {
	case 0:
		allowed = nil
	case 1:
		allowed = []Mode{ModeLazy}
	case 2:
		allowed = []Mode{ModeIncremental}
	case 3:
		allowed = []Mode{ModeNone, ModeLazy}
	case 4:
		allowed = []Mode{ModeLazy, ModeIncremental}
	case 5:
		allowed = []Mode{ModeNone}
	}
	c := SafetyConstraints{MaxCPUPercent: 50, MaxMemoryMB: 100, MinStabilityPeriod: period, MinConfidence: minConf, AllowedModes: allowed}
	vrt.AssertNoErr(c.Validate(), "constraints-valid")
	base := time.Unix(1700000000, 0)
	clk := &verifClock{}
	s := NewConfigSelector(WithSafetyConstraints(c), WithSelectorClock(clk))
	// pre-state
	hasLast := stability
	var lastMode Mode
	elapsed := time.Duration(0)
	if hasLast {
		lastMode = []Mode{ModeNone, ModeLazy, ModeIncremental}[vrt.Choice(3)]
		vrt.Assume(verifAllowed(allowed, lastMode)) // invariant of reachable states
		s.lastMode = lastMode
		s.lastDecisionTime = base
		// the elapsed time is forked over boundary values, the stability period stays symbolic
		elapsed = []time.Duration{0, 30 * time.Second, time.Hour}[vrt.Choice(3)]
	}
	clk.t = base.Add(elapsed)
	d := s.SelectConfig(f, wt)
	// gate 1: only allowed modes (or none)
	vrt.Assert(d.Mode == ModeNone || verifAllowed(allowed, d.Mode), "selector-mode-is-allowed")
	// confidence in [0,1], not NaN
	vrt.Assert(d.Confidence >= 0 && d.Confidence <= 1, "selector-confidence-in-range")
	// gate 2: low confidence falls back to none
	if d.Confidence < minConf {
		vrt.Assert(d.Mode == ModeNone, "selector-low-confidence-gives-none")
	}
	// gate 3: among decisions that pass the two gates, no mode change inside the stability period
	if hasLast && d.Confidence >= minConf && elapsed < period {
		raw := (&RuleBasedStrategy{}).Select(f, wt)
		if verifAllowed(allowed, raw.Mode) {
			vrt.Assert(d.Mode == lastMode, "selector-stable-within-period")
		}
	}
	// the stability memory keeps the invariant
	if !s.lastDecisionTime.IsZero() {
		vrt.Assert(verifAllowed(allowed, s.lastMode), "selector-memory-invariant")
	}
	vrt.Covered("selector-step-done")
}

func VerifH_C19_selector_gates_unknown() { verifSelectorStep(WorkloadUnknown, false) }
func VerifH_C19_selector_stability_unknown() { verifSelectorStep(WorkloadUnknown, true) }
func VerifH_C19_selector_gates_batch() { verifSelectorStep(WorkloadBatchDeletion, false) }
func VerifH_C19_selector_stability_batch() { verifSelectorStep(WorkloadBatchDeletion, true) }
func VerifH_C19_selector_gates_writes() { verifSelectorStep(WorkloadFrequentWrites, false) }
func VerifH_C19_selector_stability_writes() { verifSelectorStep(WorkloadFrequentWrites, true) }
func VerifH_C19_selector_gates_mixed() { verifSelectorStep(WorkloadMixedRW, false) }
func VerifH_C19_selector_stability_mixed() { verifSelectorStep(WorkloadMixedRW, true) }
func VerifH_C19_selector_gates_read() { verifSelectorStep(WorkloadReadHeavy, false) }
func VerifH_C19_selector_stability_read() { verifSelectorStep(WorkloadReadHeavy, true) }
func VerifH_C19_selector_gates_append() { verifSelectorStep(WorkloadAppendOnly, false) }
func VerifH_C19_selector_stability_append() { verifSelectorStep(WorkloadAppendOnly, true) }
func VerifH_C19_selector_gates_invalid() { verifSelectorStep(WorkloadType(6), false) }
func VerifH_C19_selector_stability_invalid() { verifSelectorStep(WorkloadType(6), true) }
