//go:build verif

package structures

import (
	"encoding/binary"

	"github.com/scigolib/hdf5/internal/core"
	"github.com/scigolib/hdf5/internal/vrt"
)

// C07 M tier (structures): readers over an arbitrary file image (concrete signature, symbolic body).

func verifImage(sig string, body, pad int) *verifMem {
	b := make([]byte, 0, len(sig)+body+pad)
	b = append(b, sig...)
	b = append(b, vrt.Bytes(body)...)
	b = append(b, make([]byte, pad)...)
	return &verifMem{data: b}
}

func verifSB() *core.Superblock {
	sizes := [3]uint8{2, 4, 8}
	k := vrt.Choice(3)
	return &core.Superblock{Version: 0, OffsetSize: sizes[k], LengthSize: sizes[k], Endianness: binary.LittleEndian}
}

func VerifH_C07_file_localheap() {
	vrt.AllocBudget(1 << 30) // the library's own limit for a checked size (utils.MaxChunkSize)
	vrt.SampleSizes()
	vrt.StepBudget(3000000)
	f := verifImage("HEAP", 28, 32)
	h, err := LoadLocalHeap(f, 0, verifSB())
	if err == nil {
		vrt.Assert(h != nil, "localheap-nil-without-error")
		_, _ = h.GetString(uint64(vrt.U8()))
	}
	vrt.Covered("localheap-read")
}

func VerifH_C07_file_snod() {
	vrt.AllocBudget(1 << 30) // the library's own limit for a checked size (utils.MaxChunkSize)
	vrt.SampleSizes()
	vrt.StepBudget(3000000)
	f := verifImage("SNOD", 4+40, 64)
	n, err := ParseSymbolTableNode(f, 0, &core.Superblock{Version: 0, OffsetSize: 8, LengthSize: 8, Endianness: binary.LittleEndian})
	if err == nil {
		vrt.Assert(n != nil, "snod-nil-without-error")
	}
	vrt.Covered("snod-read")
}

func VerifH_C07_file_group_btree() {
	vrt.AllocBudget(1 << 30) // the library's own limit for a checked size (utils.MaxChunkSize)
	vrt.SampleSizes()
	vrt.StepBudget(3000000)
	f := verifImage("TREE", 36, 64)
	_, _ = ReadGroupBTreeEntries(f, 0, &core.Superblock{Version: 0, OffsetSize: 8, LengthSize: 8, Endianness: binary.LittleEndian})
	vrt.Covered("group-btree-read")
}

func VerifH_C07_file_fractalheap() {
	vrt.AllocBudget(1 << 30) // the library's own limit for a checked size (utils.MaxChunkSize)
	vrt.SampleSizes()
	vrt.StepBudget(3000000)
	f := verifImage("\x00\x00\x00\x00\x00\x00\x00\x00FRHP", 40, 200)
	fh, err := OpenFractalHeap(f, 8, 8, 8, binary.LittleEndian)
	if err == nil && fh != nil {
		_, _ = fh.ReadObject(vrt.Bytes(8))
	}
	vrt.Covered("fractalheap-read")
}

// the link message parser the group loader uses (structures.ParseLinkMessage, distinct from core.ParseLinkMessage)
// on an arbitrary buffer of 0..20 bytes (28 thorough): a value or an error, never a panic
func VerifH_C07_structures_link() {
	vrt.AllocBudget(1 << 20)
	n := 20
	if vrt.Thorough() {
		n = 28
	}
	data := vrt.Bytes(vrt.Choice(n + 1))
	sb := &core.Superblock{Version: 2, OffsetSize: 8, LengthSize: 8, Endianness: binary.LittleEndian}
	l, err := ParseLinkMessage(data, sb)
	if err == nil {
		vrt.Assert(l != nil, "link-nil-without-error")
	}
	vrt.Covered("structures-link-parsed")
}
