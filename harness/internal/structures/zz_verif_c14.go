//go:build verif

package structures

import (
	"encoding/binary"
	"io"

	"github.com/scigolib/hdf5/internal/core"
	"github.com/scigolib/hdf5/internal/vrt"
)

func verifRot(x uint32, k uint) uint32 { return (x << k) | (x >> (32 - k)) }

// verifLookup3 is Bob Jenkins' lookup3 hashlittle() (byte-wise, little-endian, initval 0) as used by
// H5_checksum_lookup3 for link/attribute name hashes. Written in the operator shape of the code under test.
func verifLookup3(k []byte) uint32 {
	length := len(k)
	a := uint32(0xdeadbeef) + uint32(length)
	b, c := a, a
	i := 0
	for length-i > 12 {
		a += uint32(k[i]) | uint32(k[i+1])<<8 | uint32(k[i+2])<<16 | uint32(k[i+3])<<24
		b += uint32(k[i+4]) | uint32(k[i+5])<<8 | uint32(k[i+6])<<16 | uint32(k[i+7])<<24
		c += uint32(k[i+8]) | uint32(k[i+9])<<8 | uint32(k[i+10])<<16 | uint32(k[i+11])<<24
		// mix(a,b,c)
		a -= c
		a ^= verifRot(c, 4)
		c += b
		b -= a
		b ^= verifRot(a, 6)
		a += c
		c -= b
		c ^= verifRot(b, 8)
		b += a
		a -= c
		a ^= verifRot(c, 16)
		c += b
		b -= a
		b ^= verifRot(a, 19)
		a += c
		c -= b
		c ^= verifRot(b, 4)
		b += a
		i += 12
	}
	rem := length - i
	if rem == 0 {
		return c // zero length strings require no mixing
	}
	if rem >= 12 {
		c += uint32(k[i+11]) << 24
	}
	if rem >= 11 {
		c += uint32(k[i+10]) << 16
	}
	if rem >= 10 {
		c += uint32(k[i+9]) << 8
	}
	if rem >= 9 {
		c += uint32(k[i+8])
	}
	if rem >= 8 {
		b += uint32(k[i+7]) << 24
	}
	if rem >= 7 {
		b += uint32(k[i+6]) << 16
	}
	if rem >= 6 {
		b += uint32(k[i+5]) << 8
	}
	if rem >= 5 {
		b += uint32(k[i+4])
	}
	if rem >= 4 {
		a += uint32(k[i+3]) << 24
	}
	if rem >= 3 {
		a += uint32(k[i+2]) << 16
	}
	if rem >= 2 {
		a += uint32(k[i+1]) << 8
	}
	a += uint32(k[i])
	// final(a,b,c)
	c ^= b
	c -= verifRot(b, 14)
	a ^= c
	a -= verifRot(c, 11)
	b ^= a
	b -= verifRot(a, 25)
	c ^= b
	c -= verifRot(b, 16)
	a ^= c
	a -= verifRot(c, 4)
	b ^= a
	b -= verifRot(a, 14)
	c ^= b
	c -= verifRot(b, 24)
	return c
}

// C14 hash: for every byte string of length 0..N (length forked, bytes symbolic) the key hash equals lookup3.
func verifHashRange(lo, hi int) {
	n := lo + vrt.Choice(hi-lo+1)
	k := vrt.Bytes(n)
	got := jenkinsHash(string(k))
	want := verifLookup3(k)
	vrt.Assert(got == want, "hash-equals-lookup3")
	vrt.Covered("hash-compared")
}

func VerifH_C14_hash_0_16() { verifHashRange(0, 16) }
func VerifH_C14_hash_17_32() { verifHashRange(17, 32) }
func VerifH_C14_hash_33_48_thorough() { verifHashRange(33, 48) }
func VerifH_C14_hash_49_64_thorough() { verifHashRange(49, 64) }

// ---- in-memory file for persistence harnesses ----

type verifMem struct {
	data   []byte
	next   uint64
	writes int
}

func (m *verifMem) WriteAtAddress(b []byte, addr uint64) error {
	end := int(addr) + len(b)
	if len(m.data) < end {
		m.data = append(m.data, make([]byte, end-len(m.data))...)
	}
	copy(m.data[addr:], b)
	m.writes++
	return nil
}

func (m *verifMem) Allocate(size uint64) (uint64, error) {
	a := m.next
	m.next += size
	return a, nil
}

func (m *verifMem) ReadAt(p []byte, off int64) (int, error) {
	if off < 0 || int(off) >= len(m.data) {
		return 0, verifEOF
	}
	n := copy(p, m.data[off:])
	if n < len(p) {
		return n, verifEOF
	}
	return n, nil
}

var verifEOF = io.EOF

func verifHeapID7(id uint64) [7]byte {
	var b [7]byte
	for i := 0; i < 7; i++ {
		b[i] = byte(id >> (8 * uint(i)))
	}
	return b
}

// verifBTreeInvariant: records ordered by hash, the four counts equal.
func verifBTreeInvariant(bt *WritableBTreeV2, n int) {
	vrt.Assert(len(bt.records) == n, "btree-record-count")
	vrt.Assert(len(bt.leaf.Records) == n, "btree-leaf-count")
	vrt.Assert(int(bt.header.NumRecordsRoot) == n, "btree-header-root-count")
	vrt.Assert(bt.header.TotalRecords == uint64(n), "btree-header-total-count")
	for i := 1; i < len(bt.records); i++ {
		vrt.Assert(bt.records[i-1].NameHash <= bt.records[i].NameHash, "btree-sorted-by-hash")
	}
}

// C14 step: pre-state = k records inserted through the real API (k forked 0..3, capacity forked 1..4 via the node
// size, names one symbolic byte each, heap ids symbolic), then one operation; the result is compared with a model map.
// Assumption (stated): the <=4 names in play have pairwise different hashes (collisions: see VerifH_C14_collision).
func VerifH_C14_step() {
	capacity := 1 + vrt.Choice(4)
	bt := NewWritableBTreeV2(uint32(10 + 11*capacity + vrt.Choice(2)*5))
	vrt.Assert(bt.calculateMaxRecords() == capacity, "btree-capacity")
	k := vrt.Choice(capacity + 1)
	if k > 3 {
		k = 3
	}
	names := make([]string, 0, 4)
	ids := make([]uint64, 0, 4)
	// concrete, pairwise distinct names (their hashes are concrete, so the sort order is decided without the
	// solver); the insertion order is forked, heap ids are symbolic
	pool := []string{"alpha", "b", "attr_12chars", "", "zz9", "name-with-24-characters!!"}
	start, step := vrt.Choice(6), 1+4*vrt.Choice(2)
	for i := 0; i < k; i++ {
		nm := pool[(start+i*step)%6]
		id := vrt.U64() & 0x00FFFFFFFFFFFFFF
		vrt.AssertNoErr(bt.InsertRecord(nm, id), "btree-insert-below-capacity-ok")
		names = append(names, nm)
		ids = append(ids, id)
	}
	verifBTreeInvariant(bt, k)
	// the operation's name: present (index forked) or absent
	var opName string
	present := -1
	if k > 0 && vrt.Bool() {
		present = vrt.Choice(k)
		opName = names[present]
	} else {
		opName = []string{"absent", "q"}[vrt.Choice(2)]
	}
	for i := range names {
		for j := i + 1; j < len(names); j++ {
			vrt.Assume(jenkinsHash(names[i]) != jenkinsHash(names[j]))
		}
		if present < 0 {
			vrt.Assume(jenkinsHash(names[i]) != jenkinsHash(opName))
		}
	}
	newID := vrt.U64() & 0x00FFFFFFFFFFFFFF
	n := k
	switch vrt.Choice(6) {
	case 0: // insert
		if present >= 0 {
			return // duplicate-key inserts are not part of the model here
		}
		err := bt.InsertRecord(opName, newID)
		if k >= capacity {
			vrt.Assert(err == ErrBTreeNodeFull, "btree-full-insert-rejected")
		} else {
			vrt.AssertNoErr(err, "btree-insert-below-capacity-ok")
			names = append(names, opName)
			ids = append(ids, newID)
			n++
		}
	case 1: // search
		got, ok := bt.SearchRecord(opName)
		vrt.Assert(ok == (present >= 0), "btree-search-finds-exactly-present")
		if ok && present >= 0 {
			want := verifHeapID7(ids[present])
			for i := 0; i < 7; i++ {
				vrt.Assert(got[i] == want[i], "btree-search-returns-latest-value")
			}
		}
		vrt.Assert(bt.HasKey(opName) == (present >= 0), "btree-haskey")
	case 2: // update
		err := bt.UpdateRecord(opName, newID)
		if present >= 0 {
			vrt.AssertNoErr(err, "btree-update-present-ok")
			ids[present] = newID
		} else {
			vrt.Assert(err != nil, "btree-update-absent-rejected")
		}
	case 3, 4, 5: // delete, three variants
		var err error
		switch vrt.Choice(3) {
		case 0:
			err = bt.DeleteRecord(opName)
		case 1:
			err = bt.DeleteRecordWithRebalancing(opName)
		default:
			bt.EnableLazyRebalancing(DefaultLazyConfig())
			err = bt.DeleteRecordLazy(opName)
		}
		if present >= 0 {
			vrt.AssertNoErr(err, "btree-delete-present-ok")
			names = append(names[:present], names[present+1:]...)
			ids = append(ids[:present], ids[present+1:]...)
			n--
		} else {
			vrt.Assert(err != nil, "btree-delete-absent-rejected")
		}
	}
	verifBTreeInvariant(bt, n)
	// every model entry is found with its latest value
	for i := range names {
		got, ok := bt.SearchRecord(names[i])
		vrt.Assert(ok, "btree-live-key-found")
		if ok {
			want := verifHeapID7(ids[i])
			for b := 0; b < 7; b++ {
				vrt.Assert(got[b] == want[b], "btree-live-value")
			}
		}
	}
	// persistence: write out, load back, same state
	if n > 0 {
		sb := &core.Superblock{Version: 2, OffsetSize: 8, LengthSize: 8, Endianness: binary.LittleEndian}
		mem := &verifMem{next: 64}
		addr, err := bt.WriteToFile(mem, mem, sb)
		vrt.AssertNoErr(err, "btree-write-ok")
		back := NewWritableBTreeV2(bt.nodeSize)
		vrt.AssertNoErr(back.LoadFromFile(mem, addr, sb), "btree-load-ok")
		verifBTreeInvariant(back, n)
		for i := range bt.records {
			vrt.Assert(back.records[i].NameHash == bt.records[i].NameHash, "btree-persist-hash")
			vrt.Assert(back.records[i].HeapID == bt.records[i].HeapID, "btree-persist-heapid")
		}
	}
	vrt.Covered("btree-step-done")
}

// C14, hash-colliding distinct names ("k69209" and "k155448" have the same lookup3 hash, found by a birthday search):
// the index must not confuse them. The records hold only (hash, heap id), so a faithful index has to disambiguate
// through the heap; this one matches on the hash alone (known finding KF-C14-collision).
func VerifH_C14_collision() {
	a, b := "k69209", "k155448"
	vrt.Assert(jenkinsHash(a) == jenkinsHash(b) && a != b, "collision-pair-still-collides") // guards the harness itself
	bt := NewWritableBTreeV2(4096)
	ida := vrt.U64() & 0x00FFFFFFFFFFFFFF
	vrt.AssertNoErr(bt.InsertRecord(a, ida), "btree-insert-below-capacity-ok")
	vrt.Covered("collision-checked")
	vrt.Assert(!bt.HasKey(b), "colliding-absent-name-not-found")
	_, found := bt.SearchRecord(b)
	vrt.Assert(!found, "colliding-absent-name-not-found")
}

// C14 persistence into a differently sized object: an index written with a small node (capacity 1..4, filled to
// capacity or one below) is loaded by an object constructed with the default node size; the loaded index has the
// written index's capacity (a further insert is accepted exactly when the original accepts it), keeps every
// record, and survives another write/load cycle.
func VerifH_C14_load_other_node_size() {
	capacity := 1 + vrt.Choice(4)
	nodeSize := uint32(10 + 11*capacity + vrt.Choice(2)*5)
	bt := NewWritableBTreeV2(nodeSize)
	vrt.Assert(bt.calculateMaxRecords() == capacity, "btree-capacity")
	k := capacity - vrt.Choice(2)
	if k < 1 {
		k = 1
	}
	pool := []string{"alpha", "b", "attr_12chars", "", "zz9"}
	ids := make([]uint64, k)
	for i := 0; i < k; i++ {
		ids[i] = vrt.U64() & 0x00FFFFFFFFFFFFFF
		vrt.AssertNoErr(bt.InsertRecord(pool[i], ids[i]), "btree-insert-below-capacity-ok")
	}
	sb := &core.Superblock{Version: 2, OffsetSize: 8, LengthSize: 8, Endianness: binary.LittleEndian}
	mem := &verifMem{next: 64}
	addr, err := bt.WriteToFile(mem, mem, sb)
	vrt.AssertNoErr(err, "btree-write-ok")
	back := NewWritableBTreeV2([]uint32{4096, 512}[vrt.Choice(2)])
	vrt.AssertNoErr(back.LoadFromFile(mem, addr, sb), "btree-load-ok")
	verifBTreeInvariant(back, k)
	vrt.Assert(back.calculateMaxRecords() == capacity, "btree-loaded-capacity-is-the-written-one")
	newID := vrt.U64() & 0x00FFFFFFFFFFFFFF
	err = back.InsertRecord(pool[4], newID)
	n := k
	if k >= capacity {
		vrt.Assert(err == ErrBTreeNodeFull, "btree-full-insert-rejected")
	} else {
		vrt.AssertNoErr(err, "btree-insert-below-capacity-ok")
		n++
	}
	verifBTreeInvariant(back, n)
	for i := 0; i < k; i++ {
		got, ok := back.SearchRecord(pool[i])
		vrt.Assert(ok, "btree-live-key-found")
		if ok {
			want := verifHeapID7(ids[i])
			for b := 0; b < 7; b++ {
				vrt.Assert(got[b] == want[b], "btree-live-value")
			}
		}
	}
	mem2 := &verifMem{next: 64}
	addr2, err := back.WriteToFile(mem2, mem2, sb)
	vrt.AssertNoErr(err, "btree-write-ok")
	again := NewWritableBTreeV2(4096)
	vrt.AssertNoErr(again.LoadFromFile(mem2, addr2, sb), "btree-load-ok")
	verifBTreeInvariant(again, n)
	for i := range back.records {
		vrt.Assert(again.records[i].NameHash == back.records[i].NameHash, "btree-persist-hash")
		vrt.Assert(again.records[i].HeapID == back.records[i].HeapID, "btree-persist-heapid")
	}
	vrt.Covered("btree-step-done")
}

// chunk index with more entries than one node can announce (65535, 65536, 65537 chunks; a 16-bit count): written by the
// chunk index writer, read back by the reader's B-tree walk: every chunk is there with its address
func VerifH_C01_chunk_index_many_thorough() {
	vrt.LoopBound(200000)
	n := 65535 + vrt.Choice(3)
	w := NewChunkBTreeWriter(1)
	probe := []int{0, 1, 65534, 65535, n - 1}[vrt.Choice(5)]
	vrt.Assume(probe < n)
	pa := vrt.U64() & 0x0000FFFFFFFFFFFF
	for i := 0; i < n; i++ {
		addr := uint64(4096 + 8*i)
		if i == probe {
			addr = pa
		}
		vrt.AssertNoErr(w.AddChunkWithSize([]uint64{uint64(i)}, addr, 4), "add-chunk-ok")
	}
	mem := &verifMem{next: 64}
	root, err := w.WriteToFile(mem, mem)
	if err != nil {
		vrt.Covered("chunk-index-checked") // a refusal is acceptable; silent loss is not
		return
	}
	node, err := core.ParseBTreeV1Node(mem, root, 8, 1, []uint64{1})
	vrt.AssertNoErr(err, "chunk-index-parses")
	if err != nil {
		return
	}
	chunks, err := node.CollectAllChunks(mem, 8, []uint64{1})
	vrt.AssertNoErr(err, "chunk-index-walk-ok")
	vrt.Assert(len(chunks) == n, "every-chunk-indexed")
	if len(chunks) == n {
		vrt.Assert(chunks[probe].Key.Scaled[0] == uint64(probe) && chunks[probe].Address == pa, "chunk-address-as-written")
	}
	vrt.Covered("chunk-index-checked")
}
