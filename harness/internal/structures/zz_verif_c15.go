//go:build verif

package structures

import (
	"encoding/binary"

	"github.com/scigolib/hdf5/internal/core"
	"github.com/scigolib/hdf5/internal/vrt"
)

type verifObj struct {
	id   []byte
	data []byte
	live bool
}

func verifBytesEq(a, b []byte) bool {
	if len(a) != len(b) {
		return false
	}
	eq := true
	for i := range a {
		if a[i] != b[i] {
			eq = false
		}
	}
	return eq
}

// C15 step: a heap with a small block (size forked), k objects inserted (sizes forked 1..3, bytes symbolic), then one
// operation (insert that fits / does not fit, overwrite, delete, get); every live id returns its bytes, counters match
// the model, a non-fitting insert fails and changes nothing.
func verifHeapScript(persist bool) {
	blockSize := uint64(24 + 8*vrt.Choice(3))
	fh := NewWritableFractalHeap(blockSize)
	k := vrt.Choice(3)
	var objs []*verifObj
	used := uint64(0)
	for i := 0; i < k; i++ {
		d := vrt.Bytes(1 + vrt.Choice(3))
		id, err := fh.InsertObject(d)
		vrt.AssertNoErr(err, "heap-insert-fitting-ok")
		objs = append(objs, &verifObj{id: id, data: append([]byte(nil), d...), live: true})
		used += uint64(len(d))
	}
	nlive := k
	freeSpace := blockSize - used
	switch vrt.Choice(4) {
	case 0: // insert: fitting or not
		var n int
		if vrt.Bool() {
			n = 1 + vrt.Choice(4)
		} else {
			n = int(blockSize-used) + vrt.Choice(3) // at, and just above, the remaining space
			if n == 0 {
				n = 1
			}
		}
		d := vrt.Bytes(n)
		beforeFree, beforeCount, beforeOff := fh.Header.FreeSpace, fh.Header.NumManagedObjects, fh.DirectBlock.FreeOffset
		id, err := fh.InsertObject(d)
		if err != nil {
			// an insert that fails changes nothing
			vrt.Assert(fh.Header.FreeSpace == beforeFree && fh.Header.NumManagedObjects == beforeCount && fh.DirectBlock.FreeOffset == beforeOff && fh.RootIndirectBlock == nil, "heap-failed-insert-changes-nothing")
			vrt.Assert(uint64(n) > blockSize-used, "heap-insert-fitting-ok")
		} else {
			// accepted (in the first block, or after growing past it): the object must be retrievable below
			objs = append(objs, &verifObj{id: id, data: append([]byte(nil), d...), live: true})
			nlive++
			freeSpace -= uint64(n)
		}
	case 1: // overwrite (same size)
		if k > 0 {
			o := objs[vrt.Choice(k)]
			nd := vrt.Bytes(len(o.data))
			vrt.AssertNoErr(fh.OverwriteObject(o.id, nd), "heap-overwrite-ok")
			o.data = append([]byte(nil), nd...)
		}
	case 2: // delete
		if k > 0 {
			o := objs[vrt.Choice(k)]
			vrt.AssertNoErr(fh.DeleteObject(o.id), "heap-delete-ok")
			o.live = false
			nlive--
			freeSpace += uint64(len(o.data))
		}
	case 3: // get only
	}
	grown := fh.RootIndirectBlock != nil
	vrt.Assert(fh.Header.NumManagedObjects == uint64(nlive), "heap-object-count-as-model")
	if !grown {
		vrt.Assert(fh.Header.FreeSpace == freeSpace, "heap-free-space-as-model")
	}
	// ids of live objects pairwise distinct
	for i := range objs {
		for j := i + 1; j < len(objs); j++ {
			if objs[i].live && objs[j].live {
				vrt.Assert(!verifBytesEq(objs[i].id, objs[j].id), "heap-live-ids-distinct")
			}
		}
	}
	for _, o := range objs {
		if o.live {
			got, err := fh.GetObject(o.id)
			vrt.AssertNoErr(err, "heap-get-live-ok")
			vrt.Assert(verifBytesEq(got, o.data), "heap-get-returns-stored-bytes")
		}
	}
	if persist && !grown {
		sb := &core.Superblock{Version: 2, OffsetSize: 8, LengthSize: 8, Endianness: binary.LittleEndian}
		mem := &verifMem{next: 64}
		addr, err := fh.WriteToFile(mem, mem, sb)
		vrt.AssertNoErr(err, "heap-write-ok")
		back := NewWritableFractalHeap(blockSize)
		vrt.AssertNoErr(back.LoadFromFile(mem, addr, sb), "heap-load-ok")
		vrt.Assert(back.Header.NumManagedObjects == uint64(nlive), "heap-persist-object-count")
		vrt.Assert(back.Header.FreeSpace == freeSpace, "heap-persist-free-space")
		for _, o := range objs {
			if o.live {
				got, err := back.GetObject(o.id)
				// objects that end inside the last 19 bytes of the block (prefix 15 + checksum 4 compete with object bytes)
				inTail := false
				if len(o.id) >= 3 {
					off := uint64(o.id[1]) | uint64(o.id[2])<<8
					inTail = off+uint64(len(o.data)) > blockSize-19
				}
				if inTail {
					vrt.Assert(err == nil && verifBytesEq(got, o.data), "heap-persist-bytes-in-block-tail")
				} else {
					vrt.AssertNoErr(err, "heap-persist-get-ok")
					vrt.Assert(verifBytesEq(got, o.data), "heap-persist-bytes")
				}
			}
		}
		// the read-only reader agrees
		ro, err := OpenFractalHeap(mem, addr, 8, 8, binary.LittleEndian)
		if err == nil {
			for _, o := range objs {
				if o.live {
					got, err := ro.ReadObject(o.id)
					if err == nil {
						off := uint64(o.id[1]) | uint64(o.id[2])<<8
						if off+uint64(len(o.data)) > blockSize-19 {
							vrt.Assert(verifBytesEq(got, o.data), "heap-reader-bytes-in-block-tail")
						} else {
							vrt.Assert(verifBytesEq(got, o.data), "heap-reader-bytes")
						}
					}
				}
			}
		}
	}
	vrt.Covered("heap-step-done")
}

func VerifH_C15_step() { verifHeapScript(false) }
func VerifH_C15_persist() { verifHeapScript(true) }

// C15 history with a write/load cycle in the middle: k inserts, one delete (position forked), one insert, write + load,
// one more insert on the loaded heap: live ranges disjoint, every live id returns its bytes.
func VerifH_C15_reload_history() {
	blockSize := uint64(64)
	fh := NewWritableFractalHeap(blockSize)
	sb := &core.Superblock{Version: 2, OffsetSize: 8, LengthSize: 8, Endianness: binary.LittleEndian}
	var objs []*verifObj
	ins := func(h *WritableFractalHeap, n int) {
		d := vrt.Bytes(n)
		id, err := h.InsertObject(d)
		vrt.AssertNoErr(err, "heap-insert-fitting-ok")
		objs = append(objs, &verifObj{id: id, data: append([]byte(nil), d...), live: true})
	}
	k := 1 + vrt.Choice(2)
	for i := 0; i < k; i++ {
		ins(fh, 2+vrt.Choice(2))
	}
	del := objs[vrt.Choice(k)] // first or last allocated
	vrt.AssertNoErr(fh.DeleteObject(del.id), "heap-delete-ok")
	del.live = false
	ins(fh, 3)
	mem := &verifMem{next: 64}
	addr, err := fh.WriteToFile(mem, mem, sb)
	vrt.AssertNoErr(err, "heap-write-ok")
	back := NewWritableFractalHeap(blockSize)
	vrt.AssertNoErr(back.LoadFromFile(mem, addr, sb), "heap-load-ok")
	ins(back, 2+vrt.Choice(2))
	// disjoint live ranges (offset = id bytes 1..2, little endian)
	for i := range objs {
		for j := i + 1; j < len(objs); j++ {
			a, b := objs[i], objs[j]
			if a.live && b.live {
				ao := int(a.id[1]) | int(a.id[2])<<8
				bo := int(b.id[1]) | int(b.id[2])<<8
				vrt.Assert(ao+len(a.data) <= bo || bo+len(b.data) <= ao, "heap-live-ranges-disjoint")
			}
		}
	}
	for _, o := range objs {
		if o.live {
			got, err := back.GetObject(o.id)
			vrt.AssertNoErr(err, "heap-get-live-ok")
			vrt.Assert(verifBytesEq(got, o.data), "heap-get-returns-stored-bytes")
		}
	}
	vrt.Covered("heap-history-done")
}

// an insert above the maximum managed object size is rejected and changes nothing (also when it would not fit the block)
func VerifH_C15_oversize_insert() {
	vrt.LoopBound(5000)
	blockSize := uint64(1024)
	fh := NewWritableFractalHeap(blockSize)
	d := vrt.Bytes(3)
	id, err := fh.InsertObject(d)
	vrt.AssertNoErr(err, "heap-insert-fitting-ok")
	big := make([]byte, int(fh.Header.MaxManagedObjectSize)+1+vrt.Choice(2))
	beforeFree, beforeCount, beforeOff, beforeRows := fh.Header.FreeSpace, fh.Header.NumManagedObjects, fh.DirectBlock.FreeOffset, fh.Header.CurrentNumRows
	_, err = fh.InsertObject(big)
	vrt.Assert(err != nil, "heap-oversize-insert-rejected")
	vrt.Assert(fh.Header.FreeSpace == beforeFree && fh.Header.NumManagedObjects == beforeCount && fh.DirectBlock.FreeOffset == beforeOff &&
		fh.Header.CurrentNumRows == beforeRows && fh.RootIndirectBlock == nil, "heap-failed-insert-changes-nothing")
	got, err := fh.GetObject(id)
	vrt.AssertNoErr(err, "heap-get-live-ok")
	vrt.Assert(verifBytesEq(got, d), "heap-get-returns-stored-bytes")
	sb := &core.Superblock{Version: 2, OffsetSize: 8, LengthSize: 8, Endianness: binary.LittleEndian}
	mem := &verifMem{next: 64}
	addr, err := fh.WriteToFile(mem, mem, sb)
	vrt.AssertNoErr(err, "heap-write-ok")
	back := NewWritableFractalHeap(blockSize)
	vrt.AssertNoErr(back.LoadFromFile(mem, addr, sb), "heap-load-ok")
	got, err = back.GetObject(id)
	vrt.AssertNoErr(err, "heap-persist-get-ok")
	vrt.Assert(verifBytesEq(got, d), "heap-persist-bytes")
	vrt.Covered("oversize-done")
}

// objects at the largest managed size (and one byte below) are accepted and come back intact, in memory and after write/load
func VerifH_C15_max_size_insert() {
	vrt.LoopBound(300000)
	blockSize := uint64(128 * 1024)
	fh := NewWritableFractalHeap(blockSize)
	small := vrt.Bytes(3)
	idSmall, err := fh.InsertObject(small)
	vrt.AssertNoErr(err, "heap-insert-fitting-ok")
	n := int(fh.Header.MaxManagedObjectSize) - 1 + vrt.Choice(2)
	big := make([]byte, n)
	for i := range big {
		big[i] = byte(i*13 + 1)
	}
	big[0], big[n-1] = vrt.U8(), vrt.U8()
	idBig, err := fh.InsertObject(big)
	vrt.AssertNoErr(err, "heap-insert-fitting-ok")
	if err != nil {
		return
	}
	got, err := fh.GetObject(idBig)
	vrt.AssertNoErr(err, "heap-get-live-ok")
	vrt.Assert(verifBytesEq(got, big), "heap-get-returns-stored-bytes")
	sb := &core.Superblock{Version: 2, OffsetSize: 8, LengthSize: 8, Endianness: binary.LittleEndian}
	mem := &verifMem{next: 64}
	addr, err := fh.WriteToFile(mem, mem, sb)
	vrt.AssertNoErr(err, "heap-write-ok")
	back := NewWritableFractalHeap(blockSize)
	vrt.AssertNoErr(back.LoadFromFile(mem, addr, sb), "heap-load-ok")
	got, err = back.GetObject(idBig)
	vrt.AssertNoErr(err, "heap-persist-get-ok")
	vrt.Assert(verifBytesEq(got, big), "heap-persist-bytes")
	got, err = back.GetObject(idSmall)
	vrt.AssertNoErr(err, "heap-persist-get-ok")
	vrt.Assert(verifBytesEq(got, small), "heap-persist-bytes")
	vrt.Covered("max-size-done")
}

// C15 beyond one direct block: objects are inserted until the heap has grown an indirect root (block 64 bytes; three or
// four objects of 20..30 bytes), then one operation (get / same-size overwrite / delete) on an object chosen by
// index — in the first block or in a later one — and every live object still returns exactly its bytes
func VerifH_C15_indirect_ops() {
	vrt.LoopBound(5000)
	fh := NewWritableFractalHeap(64)
	type obj struct {
		id   []byte
		data []byte
		live bool
	}
	k := 3 + vrt.Choice(2)
	objs := make([]obj, 0, 4)
	for i := 0; i < k; i++ {
		d := vrt.Bytes(20 + 5*vrt.Choice(3))
		id, err := fh.InsertObject(d)
		if err != nil {
			continue // an insert may be refused; then it must not have changed anything (checked by the step harness)
		}
		objs = append(objs, obj{id: id, data: d, live: true})
	}
	vrt.Assume(len(objs) >= 3)
	vrt.Assert(fh.RootIndirectBlock != nil, "heap-grew-beyond-one-block")
	for a := range objs {
		for b := a + 1; b < len(objs); b++ {
			vrt.Assert(!verifBytesEq(objs[a].id, objs[b].id), "heap-ids-distinct")
		}
	}
	t := vrt.Choice(len(objs))
	switch vrt.Choice(3) {
	case 0:
	case 1:
		nd := vrt.Bytes(len(objs[t].data))
		err := fh.OverwriteObject(objs[t].id, nd)
		vrt.AssertNoErr(err, "heap-overwrite-live-ok")
		if err == nil {
			objs[t].data = nd
		}
	default:
		err := fh.DeleteObject(objs[t].id)
		vrt.AssertNoErr(err, "heap-delete-live-ok")
		if err == nil {
			objs[t].live = false
		}
	}
	for _, o := range objs {
		if !o.live {
			continue
		}
		got, err := fh.GetObject(o.id)
		vrt.AssertNoErr(err, "heap-get-live-ok")
		vrt.Assert(verifBytesEq(got, o.data), "heap-get-returns-stored-bytes")
	}
	vrt.Covered("heap-indirect-done")
	// written out, the read-only heap reader returns every live object
	sb := &core.Superblock{Version: 2, OffsetSize: 8, LengthSize: 8, Endianness: binary.LittleEndian}
	mem := &verifMem{next: 64}
	addr, err := fh.WriteToFile(mem, mem, sb)
	vrt.AssertNoErr(err, "heap-write-ok")
	if err != nil {
		return
	}
	ro, err := OpenFractalHeap(mem, addr, 8, 8, binary.LittleEndian)
	vrt.AssertNoErr(err, "heap-reader-open-ok")
	if err != nil {
		return
	}
	for _, o := range objs {
		if !o.live {
			continue
		}
		got, err := ro.ReadObject(o.id)
		vrt.AssertNoErr(err, "heap-reader-get-ok")
		vrt.Assert(verifBytesEq(got, o.data), "heap-reader-bytes")
	}
}
