//go:build verif

package structures

import (
	"encoding/binary"
	"errors"
	"io"

	"github.com/scigolib/hdf5/internal/core"
	"github.com/scigolib/hdf5/internal/vrt"
)

// C17 for the structure loaders: image written by the real writer, then loaded (a) through a reader that fails its
// k-th call (error or short read) and (b) from a file cut at a forked length: error, or exactly the intact state.

var verifErrIO = errors.New("injected I/O failure")

type verifFaulty struct {
	inner  *verifMem
	failAt int
	short  bool
	calls  int
	cut    int // >= 0: the file ends here
}

func (f *verifFaulty) ReadAt(p []byte, off int64) (int, error) {
	k := f.calls
	f.calls++
	if f.cut >= 0 {
		if int(off) >= f.cut {
			return 0, io.EOF
		}
		if int(off)+len(p) > f.cut {
			n, _ := f.inner.ReadAt(p[:f.cut-int(off)], off)
			return n, io.EOF
		}
		return f.inner.ReadAt(p, off)
	}
	if k == f.failAt {
		if f.short && len(p) > 1 {
			n, _ := f.inner.ReadAt(p[:len(p)/2], off)
			return n, io.ErrUnexpectedEOF
		}
		return 0, verifErrIO
	}
	return f.inner.ReadAt(p, off)
}

// verifFault forks over: fail call k (k < maxCalls) hard / short, or cut the file at one of the given lengths
func verifFault(m *verifMem, maxCalls int, cuts []int) *verifFaulty {
	if vrt.Bool() {
		return &verifFaulty{inner: m, failAt: vrt.Choice(maxCalls), short: vrt.Bool(), cut: -1}
	}
	return &verifFaulty{inner: m, failAt: -1, cut: cuts[vrt.Choice(len(cuts))]}
}

func verifSB8() *core.Superblock {
	return &core.Superblock{Version: 2, OffsetSize: 8, LengthSize: 8, Endianness: binary.LittleEndian}
}

func VerifH_C17_io_btreev2_load() {
	sb := verifSB8()
	bt := NewWritableBTreeV2(10 + 11*4)
	n := 1 + vrt.Choice(3)
	for i, nm := range []string{"alpha", "b", "zz9"}[:n] {
		vrt.AssertNoErr(bt.InsertRecord(nm, (vrt.U64()&0x00FFFFFFFFFFFF00)|uint64(i)), "btree-insert-below-capacity-ok")
	}
	mem := &verifMem{next: 64}
	addr, err := bt.WriteToFile(mem, mem, sb)
	vrt.AssertNoErr(err, "btree-write-ok")
	good := NewWritableBTreeV2(bt.nodeSize)
	vrt.AssertNoErr(good.LoadFromFile(mem, addr, sb), "faithful-load-ok")
	size := len(mem.data)
	bad := NewWritableBTreeV2(bt.nodeSize)
	err = bad.LoadFromFile(verifFault(mem, 3, []int{size - 1, size - 4, size - 11, size - 12, size - 30, int(addr) + 10}), addr, sb)
	if err == nil {
		vrt.Assert(len(bad.records) == len(good.records), "failing-load-silently-drops-records")
		if len(bad.records) == len(good.records) {
			for i := range good.records {
				vrt.Assert(bad.records[i] == good.records[i], "failing-load-gives-error-or-same-records")
			}
		}
	}
	vrt.Covered("btree-fault-compared")
}

func VerifH_C17_io_fractalheap_load() {
	sb := verifSB8()
	fh := NewWritableFractalHeap(64)
	var ids [][]byte
	var datas [][]byte
	n := 1 + vrt.Choice(2)
	for i := 0; i < n; i++ {
		d := vrt.Bytes(3)
		id, err := fh.InsertObject(d)
		vrt.AssertNoErr(err, "heap-insert-fitting-ok")
		ids = append(ids, id)
		datas = append(datas, append([]byte(nil), d...))
	}
	mem := &verifMem{next: 64}
	addr, err := fh.WriteToFile(mem, mem, sb)
	vrt.AssertNoErr(err, "heap-write-ok")
	size := len(mem.data)
	bad := NewWritableFractalHeap(64)
	err = bad.LoadFromFile(verifFault(mem, 3, []int{size - 1, size - 4, size - 40, size - 60, int(addr) + 20, int(addr) + 100}), addr, sb)
	if err == nil {
		for i := range ids {
			got, err := bad.GetObject(ids[i])
			if err == nil {
				vrt.Assert(verifBytesEq(got, datas[i]), "failing-load-gives-error-or-same-objects")
			}
		}
		vrt.Assert(bad.Header.NumManagedObjects == uint64(n), "failing-load-gives-error-or-same-object-count")
	}
	vrt.Covered("heap-fault-compared")
}

func VerifH_C17_io_localheap_load() {
	sb := &core.Superblock{Version: 0, OffsetSize: 8, LengthSize: 8, Endianness: binary.LittleEndian}
	h := NewLocalHeap(32)
	nb := vrt.Bytes(2)
	for _, c := range nb {
		vrt.Assume(c != 0)
	}
	off, err := h.AddString("n" + string(nb))
	vrt.AssertNoErr(err, "heap-add-ok")
	m := &verifMem{}
	w := &verifWriterAt{m: m}
	vrt.AssertNoErr(h.WriteTo(w, 8), "localheap-write-ok")
	good, err := LoadLocalHeap(m, 8, sb)
	vrt.AssertNoErr(err, "faithful-load-ok")
	want, err := good.GetString(off)
	vrt.AssertNoErr(err, "faithful-getstring-ok")
	size := len(m.data)
	bad, err := LoadLocalHeap(verifFault(m, 2, []int{size - 1, size - 20, 8 + 31, 8 + 16, 8 + 3}), 8, sb)
	if err == nil {
		got, err := bad.GetString(off)
		if err == nil {
			vrt.Assert(got == want, "failing-load-gives-error-or-same-name")
		}
	}
	vrt.Covered("localheap-fault-compared")
}

type verifWriterAt struct{ m *verifMem }

func (w *verifWriterAt) WriteAt(p []byte, off int64) (int, error) {
	if err := w.m.WriteAtAddress(p, uint64(off)); err != nil {
		return 0, err
	}
	return len(p), nil
}
