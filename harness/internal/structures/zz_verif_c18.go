//go:build verif

package structures

import (
	"time"

	"github.com/scigolib/hdf5/internal/vrt"
)

// C18 (b): background incremental rebalancer against foreground operations on the same index.
// The engine records every thread's events (trace mode); the schedule is then the solver's variable.
// Natively (replay under the race detector) the foreground loop is repeated so the 1 µs ticker fires during it.
func verifIncrementalTrace(fore int) {
	// natively (race-detector replay) the foreground calls are repeated for 400 ms so that the ticker fires meanwhile
	deadline := time.Now().Add(400 * time.Millisecond)
	bt := NewWritableBTreeV2(4096)
	for i, n := range []string{"a", "b", "c", "d", "e", "f"} {
		_ = bt.InsertRecord(n, uint64(i))
	}
	bt.EnableLazyRebalancing(LazyRebalancingConfig{Enabled: true, Threshold: 0.05, MaxDelay: time.Hour, BatchSize: 10})
	bt.lazyState.UnderflowNodes = []uint64{1, 2, 3} // before the goroutine exists
	cfg := DefaultIncrementalConfig()
	cfg.Interval = time.Microsecond
	cfg.Budget = time.Millisecond
	if err := bt.EnableIncrementalRebalancing(cfg); err != nil {
		vrt.Fail("enable-incremental-ok")
	}
	for k := 0; k == 0 || (!vrt.Symbolic() && time.Now().Before(deadline)); k++ {
		switch fore {
		case 0:
			_ = bt.ForceBatchRebalance()
		case 1:
			_, _, _ = bt.GetLazyRebalancingStats()
		case 2:
			_, _ = bt.GetIncrementalRebalancingProgress()
		case 3:
			_ = bt.DeleteRecordLazy("a")
			_ = bt.InsertRecord("a", 0)
		case 4:
			_ = bt.IsIncrementalRebalancingEnabled()
		}
		if !vrt.Symbolic() && k%16 == 0 {
			// keep the loop busy in the native run; done the way a foreground call has to do it, under the state's lock
			bt.lazyMu.Lock()
			if bt.lazyState != nil {
				bt.lazyState.UnderflowNodes = []uint64{1, 2, 3}
			}
			bt.lazyMu.Unlock()
		}
	}
	vrt.AssertNoErr(bt.StopIncrementalRebalancing(), "stop-returns-ok")
	vrt.Covered("stopped")
}

func VerifH_C18_trace_batchrebalance() { verifIncrementalTrace(0) }
func VerifH_C18_trace_stats() { verifIncrementalTrace(1) }
func VerifH_C18_trace_progress() { verifIncrementalTrace(2) }
func VerifH_C18_trace_deletelazy() { verifIncrementalTrace(3) }
func VerifH_C18_trace_isenabled() { verifIncrementalTrace(4) }

// every start is matched by a stop that returns; stop twice is harmless; the loop goroutine has finished when Stop returns
func VerifH_C18_trace_startstop() {
	bt := NewWritableBTreeV2(4096)
	bt.EnableLazyRebalancing(DefaultLazyConfig())
	cfg := DefaultIncrementalConfig()
	cfg.Interval = time.Microsecond
	vrt.AssertNoErr(bt.EnableIncrementalRebalancing(cfg), "enable-ok")
	r := bt.incrementalRebalancer
	vrt.AssertNoErr(bt.StopIncrementalRebalancing(), "stop-ok")
	r.Stop() // second stop on the same rebalancer: must return, must not close a closed channel
	vrt.AssertNoErr(bt.StopIncrementalRebalancing(), "second-stop-ok")
	vrt.Assert(!r.running, "loop-finished-after-stop")
	vrt.Covered("stopped-twice")
}
