// Package vrt is the harness runtime for the solver-based checks in /verif.
//
// It is never written into /repo: the engine injects it with a go/packages
// overlay (symbolic run) and with `go test -overlay` (native replay).
//
// Symbolic run: the engine intercepts every function of this package and
// substitutes fresh symbolic constants / obligations.
// Native run: inputs are popped from a replay vector (the solver's model),
// Assert panics with "VERIF-ASSERT <label>", Assume panics with "VERIF-ASSUME".
package vrt

import (
	"fmt"
	"math/rand"
	"os"
	"path/filepath"
	"runtime"
	"time"
	"strconv"
	"strings"
	"sync"
)

var (
	vec  []uint64
	pos  int
	obs  []string
	used int

	popMu          sync.Mutex // SchedPoint may be reached from goroutines of the code under test
	baseGoroutines int
)

// SetVector installs the replay vector for the next native run.
func SetVector(v []uint64) {
	vec = v
	pos = 0
	obs = nil
	used = 0
	baseGoroutines = runtime.NumGoroutine()
}

func pop() uint64 {
	popMu.Lock()
	defer popMu.Unlock()
	used++
	if pos < len(vec) {
		v := vec[pos]
		pos++
		return v
	}
	pos++
	return 0
}

func U8() uint8   { return uint8(pop()) }
func U16() uint16 { return uint16(pop()) }
func U32() uint32 { return uint32(pop()) }
func U64() uint64 { return pop() }
func I64() int64  { return int64(pop()) }
func I32() int32  { return int32(pop()) }
func Int() int    { return int(pop()) }
func Bool() bool  { return pop()&1 == 1 }

// Choice returns a value in [0,k). The engine forks over all feasible values.
func Choice(k int) int {
	v := pop()
	if k <= 0 {
		return 0
	}
	return int(v % uint64(k))
}

// Bytes returns n arbitrary bytes (n must be concrete on the path).
func Bytes(n int) []byte {
	b := make([]byte, n)
	for i := range b {
		b[i] = uint8(pop())
	}
	return b
}

// SchedPoint marks a place (in harness-provided collaborators of the code under test) where the schedule may let the
// other goroutines run first. The decision is an input: natively 1 means "sleep long enough for the others to block".
func SchedPoint(tag string) {
	d := pop()
	if os.Getenv("VERIF_SCHED_RANDOM") != "" {
		// race replay: the schedule found by the solver is approximated by random delays at the schedule points
		d = uint64(rand.Intn(3) / 2)
	}
	if d != 0 {
		time.Sleep(40 * time.Millisecond)
	}
}

// AssertNoGoroutines: every goroutine started since Run began has ended (the engine lets them run until none can
// continue; natively the goroutine count is polled for up to two seconds).
func AssertNoGoroutines(label string) {
	deadline := time.Now().Add(2 * time.Second)
	for runtime.NumGoroutine() > baseGoroutines {
		if time.Now().After(deadline) {
			Assert(false, label)
			return
		}
		time.Sleep(5 * time.Millisecond)
	}
	Assert(true, label)
}

// Corpus returns the bytes of a file of the repository, named relative to the harness package's directory.
func Corpus(rel string) []byte {
	b, err := os.ReadFile(filepath.Join(os.Getenv("VERIF_PKG_DIR"), rel))
	if err != nil {
		panic("vrt.Corpus: " + err.Error())
	}
	return b
}

// Concretize asks the engine to fork over the feasible values of v (at most
// max of them; more makes the harness incomplete). Natively it is the identity.
func Concretize(v uint64, max int) uint64 { return v }

// Assume restricts the inputs. Must precede the code it constrains.
func Assume(c bool) {
	if !c {
		panic("VERIF-ASSUME")
	}
}

// Assert states an obligation.
func Assert(c bool, label string) {
	if !c {
		panic("VERIF-ASSERT " + label)
	}
}

// AssertNoErr is Assert(err == nil, label) that keeps the error text for the report.
func AssertNoErr(err error, label string) {
	if err != nil {
		panic("VERIF-ASSERT " + label)
	}
}

// Fail is an assertion that is violated whenever it is reached.
func Fail(label string) { panic("VERIF-ASSERT " + label) }

// Observe records a value; engine and native runs must agree on all of them.
func Observe(name string, v uint64) {
	obs = append(obs, name+"="+strconv.FormatUint(v, 10))
}

// ObserveBytes records a byte string.
func ObserveBytes(name string, b []byte) {
	obs = append(obs, name+"="+fmt.Sprintf("%x", b))
}

// Symbolic reports whether the harness is being executed by the engine.
func Symbolic() bool { return false }

// Thorough reports whether the thorough tier is running (larger bounds).
func Thorough() bool { return os.Getenv("VERIF_TIER") == "thorough" }

// AllocBudget sets the largest allocation (in elements) a path may request
// from a size that is not a constant; the engine turns a larger feasible
// request into a violation "alloc-budget". Natively a no-op.
func AllocBudget(n int) {}

// SampleSizes declares that sizes and offsets read from the symbolic input are explored at a bounded number of
// feasible values each (a stated bound) instead of making the run inconclusive when more are feasible. Natively a no-op.
func SampleSizes() {}

// StepBudget bounds the interpreter steps of the rest of the path; exceeding it is reported as the violation
// "bounded-work" (the native replay confirms it as a hang under a watchdog). Natively a no-op.
func StepBudget(n int) {}

// LoopBound sets the per-loop-header visit cap for the engine. Natively a no-op.
func LoopBound(n int) {}

// Covered marks a point the engine must reach on at least one feasible path
// (vacuity guard). Natively a no-op.
func Covered(label string) {}

// UF32 is an uninterpreted function of a byte string (used to stub CRCs):
// equal inputs give equal outputs and nothing else is assumed. Natively the
// engine does not call it; harness code calls the real function instead.
func UF32(tag string, b []byte) uint32 { return 0 }

// Run executes fn on vector v and reports how it ended.
// outcome: "ok" | "assume" | "assert:<label>" | "panic:<message>"
func Run(fn func(), v []uint64) (outcome string, observations []string) {
	SetVector(v)
	defer func() {
		observations = obs
		if r := recover(); r != nil {
			s := fmt.Sprint(r)
			switch {
			case s == "VERIF-ASSUME":
				outcome = "assume"
			case strings.HasPrefix(s, "VERIF-ASSERT "):
				outcome = "assert:" + strings.TrimPrefix(s, "VERIF-ASSERT ")
			default:
				if len(s) > 200 {
					s = s[:200]
				}
				outcome = "panic:" + strings.ReplaceAll(s, "\n", " ")
			}
		}
	}()
	fn()
	return "ok", obs
}

// Report prints one machine-readable line per native run.
func Report(harness string, idx int, outcome string, observations []string) {
	fmt.Fprintf(os.Stdout, "VERIF-RUN harness=%s idx=%d outcome=%q obs=%q\n", harness, idx, outcome, strings.Join(observations, ";"))
}
