//go:build verif

package writer

import (
	"github.com/scigolib/hdf5/internal/core"
	"github.com/scigolib/hdf5/internal/vrt"
)

func verifEq(a, b []byte) bool {
	if len(a) != len(b) {
		return false
	}
	eq := true
	for i := range a {
		if a[i] != b[i] {
			eq = false
		}
	}
	return eq
}

// verifReaderPipeline describes the writer's pipeline to the reader directly (filter ids, client data), bypassing the
// pipeline *message*, whose writer/reader mismatch is checked separately (label reader-parses-writer-pipeline-message).
func verifReaderPipeline(p *FilterPipeline) *core.FilterPipelineMessage {
	fpm := &core.FilterPipelineMessage{Version: 2, NumFilters: uint8(len(p.filters))}
	for _, f := range p.filters {
		_, cd := f.Encode()
		fpm.Filters = append(fpm.Filters, core.Filter{ID: core.FilterID(f.ID()), NumClientData: uint16(len(cd)), ClientData: cd})
	}
	return fpm
}

// verifMessageAgrees: the reader's view of the writer's pipeline message equals the pipeline (ids, order, client data).
func verifMessageAgrees(p *FilterPipeline) {
	msg, err := p.EncodePipelineMessage()
	vrt.AssertNoErr(err, "pipeline-message-encode-ok")
	fpm, err := core.ParseFilterPipelineMessage(msg)
	vrt.AssertNoErr(err, "reader-parses-writer-pipeline-message")
	vrt.Assert(len(fpm.Filters) == len(p.filters), "pipeline-filter-count")
	if len(fpm.Filters) == len(p.filters) {
		for i, f := range p.filters {
			_, cd := f.Encode()
			vrt.Assert(uint16(fpm.Filters[i].ID) == uint16(f.ID()), "pipeline-filter-id-and-order")
			vrt.Assert(len(fpm.Filters[i].ClientData) == len(cd), "pipeline-client-data-count")
			if len(fpm.Filters[i].ClientData) == len(cd) {
				for j := range cd {
					vrt.Assert(fpm.Filters[i].ClientData[j] == cd[j], "pipeline-client-data")
				}
			}
		}
	}
}

// C08 shuffle: element size 1..4, length 0..8 (all lengths incl. non-multiples), every byte symbolic.
func VerifH_C08_shuffle() {
	es := 1 + vrt.Choice(4)
	n := vrt.Choice(9)
	data := vrt.Bytes(n)
	f := NewShuffleFilter(uint32(es))
	enc, err := f.Apply(data)
	if n%es != 0 {
		vrt.Assert(err != nil, "shuffle-nonmultiple-rejected")
		return
	}
	vrt.AssertNoErr(err, "shuffle-apply-ok")
	dec, err := f.Remove(enc)
	vrt.AssertNoErr(err, "shuffle-remove-ok")
	vrt.Assert(verifEq(dec, data), "shuffle-roundtrip")
	// the reader-side decoder (other package) inverts the writer-side encoder through the pipeline message
	if n > 0 {
		p := NewFilterPipeline()
		p.AddFilter(f)
		fpm := verifReaderPipeline(p)
		back, err := fpm.ApplyFilters(enc)
		vrt.AssertNoErr(err, "reader-decodes-shuffle")
		vrt.Assert(verifEq(back, data), "reader-shuffle-roundtrip")
	}
	vrt.Covered("shuffle-done")
}

// C08 fletcher32: round trip, and every single-byte alteration of the stored chunk is reported (writer-side
// Remove and reader-side decoder). n <= 4 data bytes (5 thorough); position and new value of the altered byte symbolic.
func VerifH_C08_fletcher32() {
	max := 4
	if vrt.Thorough() {
		max = 5 // 6 data bytes: one query of the modulo-65535 sums does not finish within the solver's time limit
	}
	n := vrt.Choice(max + 1)
	data := vrt.Bytes(n)
	f := NewFletcher32Filter()
	enc, err := f.Apply(data)
	vrt.AssertNoErr(err, "fletcher-apply-ok")
	vrt.Assert(len(enc) == n+4, "fletcher-appends-4-bytes")
	dec, err := f.Remove(enc)
	vrt.AssertNoErr(err, "fletcher-remove-ok")
	vrt.Assert(verifEq(dec, data), "fletcher-roundtrip")
	p := NewFilterPipeline()
	p.AddFilter(f)
	fpm := verifReaderPipeline(p)
	back, err := fpm.ApplyFilters(enc)
	vrt.AssertNoErr(err, "reader-decodes-fletcher")
	vrt.Assert(verifEq(back, data), "reader-fletcher-roundtrip")
	// corruption of one stored byte
	pos := vrt.Choice(n + 4)
	nv := vrt.U8()
	vrt.Assume(nv != enc[pos])
	bad := append([]byte(nil), enc...)
	bad[pos] = nv
	_, err = f.Remove(bad)
	vrt.Assert(err != nil, "fletcher-writer-side-detects-single-byte-corruption")
	vrt.Covered("fletcher-done")
	_, rerr := fpm.ApplyFilters(bad)
	vrt.Assert(rerr != nil, "fletcher-reader-side-detects-single-byte-corruption")
}

// C08 lzf: both decoders invert the encoder; input <= 8 bytes (<= 12 thorough), bytes symbolic.
func VerifH_C08_lzf() {
	max := 8
	if vrt.Thorough() {
		max = 12
	}
	n := 1 + vrt.Choice(max)
	data := vrt.Bytes(n)
	for i := range data {
		data[i] &= 1 // two-letter alphabet: repeats (back-references) and literal runs of every shape up to n bytes
	}
	f := NewLZFFilter()
	enc, err := f.Apply(data)
	vrt.AssertNoErr(err, "lzf-apply-ok")
	dec, err := f.Remove(enc)
	vrt.AssertNoErr(err, "lzf-remove-ok")
	vrt.Assert(verifEq(dec, data), "lzf-roundtrip")
	p := NewFilterPipeline()
	p.AddFilter(f)
	fpm := verifReaderPipeline(p)
	back, err := fpm.ApplyFilters(enc)
	vrt.AssertNoErr(err, "reader-decodes-lzf")
	vrt.Assert(verifEq(back, data), "reader-lzf-roundtrip")
	vrt.Covered("lzf-done")
}

// C08 pipeline message: subset/order of {shuffle, fletcher32, lzf, gzip(level)} (<=3 filters): the reader's decoded
// filter ids, order and client data equal the pipeline's.
func VerifH_C08_pipeline_message() {
	k := 1 + vrt.Choice(3)
	p := NewFilterPipeline()
	for i := 0; i < k; i++ {
		var f Filter
		switch vrt.Choice(4) {
		case 0:
			f = NewShuffleFilter(uint32(1 + vrt.Choice(8)))
		case 1:
			f = NewFletcher32Filter()
		case 2:
			f = NewLZFFilter()
		default:
			f = NewGZIPFilter(1 + vrt.Choice(9))
		}
		p.AddFilter(f)
	}
	vrt.Covered("pipeline-done")
	verifMessageAgrees(p)
}

// C08 composition: subset/order of {shuffle(1..2), fletcher32, lzf} (<=2 filters, 3 thorough), payload 4 bytes symbolic.
func VerifH_C08_compose() {
	max := 2
	if vrt.Thorough() {
		max = 3
	}
	k := 1 + vrt.Choice(max)
	p := NewFilterPipeline()
	for i := 0; i < k; i++ {
		switch vrt.Choice(4) {
		case 0:
			p.AddFilter(NewShuffleFilter(uint32(1 + vrt.Choice(2))))
		case 1:
			p.AddFilter(NewFletcher32Filter())
		case 2:
			p.AddFilter(NewGZIPFilter(6))
		default:
			p.AddFilter(NewLZFFilter())
		}
	}
	vrt.LoopBound(70000)
	data := vrt.Bytes(4)
	for i := range data {
		data[i] &= 1
	}
	enc, err := p.Apply(data)
	if err != nil {
		return // e.g. shuffle after fletcher32 with a non-multiple length: rejected, allowed
	}
	dec, err := p.Remove(enc)
	vrt.AssertNoErr(err, "compose-remove-ok")
	vrt.Assert(verifEq(dec, data), "compose-roundtrip")
	fpm := verifReaderPipeline(p)
	back, err := fpm.ApplyFilters(enc)
	vrt.AssertNoErr(err, "reader-decodes-composition")
	vrt.Assert(verifEq(back, data), "reader-compose-roundtrip")
	vrt.Covered("compose-done")
}

// C08 LZF window boundary: one 3-byte sequence (symbolic over a two-letter alphabet) recurs at distance d, d forked
// around the 13-bit offset limit (8191..8194); everything else in the chunk is concrete and never repeats at that
// distance. Both decoders must return the chunk.
func VerifH_C08_lzf_window() {
	vrt.LoopBound(20000)
	d := 8191 + vrt.Choice(4)
	const p0 = 5 // the compressor never references position 0
	total := p0 + d + 16
	data := make([]byte, total)
	for i := range data {
		data[i] = byte(2 + (i*7+i/5)%250) // filler without the letters 0/1
	}
	x, y, z := vrt.U8()&1, vrt.U8()&1, vrt.U8()&1
	data[p0], data[p0+1], data[p0+2] = x, y, z
	data[p0+d], data[p0+d+1], data[p0+d+2] = x, y, z
	f := NewLZFFilter()
	enc, err := f.Apply(data)
	vrt.AssertNoErr(err, "lzf-apply-ok")
	dec, err := f.Remove(enc)
	vrt.AssertNoErr(err, "lzf-remove-ok")
	vrt.Assert(verifEq(dec, data), "lzf-roundtrip")
	p := NewFilterPipeline()
	p.AddFilter(f)
	back, err := verifReaderPipeline(p).ApplyFilters(enc)
	vrt.AssertNoErr(err, "reader-decodes-lzf")
	vrt.Assert(verifEq(back, data), "reader-lzf-roundtrip")
	vrt.Covered("lzf-window-done")
}

// C08 lzf, back references of every short length: "Z" + W + W[:L] + t with W = 12 distinct bytes, L forked over 3..12
// (the 2-byte / 3-byte encoding boundary at 8/9 included), terminator symbolic.
func VerifH_C08_lzf_match_lengths() {
	L := 3 + vrt.Choice(10)
	w := []byte("ABCDEFGHIJKL")
	data := []byte{'Z'}
	data = append(data, w...)
	data = append(data, w[:L]...)
	if vrt.Bool() {
		t := vrt.U8() // a literal after the match: 16 values 'P'..'_' (the compressor's hash table is indexed by it)
		vrt.Assume(t&0xF0 == 0x50)
		data = append(data, t)
	}
	f := NewLZFFilter()
	enc, err := f.Apply(data)
	vrt.AssertNoErr(err, "lzf-apply-ok")
	dec, err := f.Remove(enc)
	vrt.AssertNoErr(err, "lzf-remove-ok")
	vrt.Assert(verifEq(dec, data), "lzf-roundtrip")
	p := NewFilterPipeline()
	p.AddFilter(f)
	fpm := verifReaderPipeline(p)
	back, err := fpm.ApplyFilters(enc)
	vrt.AssertNoErr(err, "reader-decodes-lzf")
	vrt.Assert(verifEq(back, data), "reader-lzf-roundtrip")
	vrt.Covered("lzf-done")
}

// C08 fletcher32 on inputs longer than one / two 360-word summation blocks: 724 and 1446 concrete data bytes, one of the
// last 8 data bytes (words 358..361 / 719..722) or of the 4 checksum bytes replaced by an arbitrary other value: the
// writer-side decoder reports it. (Earlier positions put hundreds of nested mod-65535 steps behind the symbolic byte;
// the short harness covers them for short inputs.)
func VerifH_C08_fletcher32_long() {
	vrt.LoopBound(20000)
	n := []int{724, 1446}[vrt.Choice(2)]
	data := make([]byte, n)
	for i := range data {
		data[i] = byte(i*7 + 3)
	}
	f := NewFletcher32Filter()
	enc, err := f.Apply(data)
	vrt.AssertNoErr(err, "fletcher-apply-ok")
	vrt.Assert(len(enc) == n+4, "fletcher-appends-4-bytes")
	dec, err := f.Remove(enc)
	vrt.AssertNoErr(err, "fletcher-remove-ok")
	vrt.Assert(verifEq(dec, data), "fletcher-roundtrip")
	// the last 8 data bytes (the word that starts the next summation block is among them) and the checksum
	pos := n - 8 + vrt.Choice(12)
	nv := vrt.U8()
	vrt.Assume(nv != enc[pos])
	bad := append([]byte(nil), enc...)
	bad[pos] = nv
	_, err = f.Remove(bad)
	vrt.Assert(err != nil, "fletcher-writer-side-detects-single-byte-corruption")
	vrt.Covered("fletcher-done")
}

// C08 deflate: the writer's deflate filter (id 1) and the reader's decoder for id 1 must agree on the container
// format. Payload: n ≤ 2 symbolic bytes over a four-letter alphabet; level forked over {1, 6, 9}. The standard library's compressor runs in the
// engine as ordinary code (package tables initialised concretely).
func VerifH_C08_deflate_container() {
	vrt.LoopBound(70000)
	level := []int{1, 6, 9}[vrt.Choice(3)]
	n := vrt.Choice(3)
	data := vrt.Bytes(n)
	for i := range data {
		data[i] = 'a' + data[i]&3 // four-letter alphabet: the compressor's table indices stay enumerable
	}
	f := NewGZIPFilter(level)
	enc, err := f.Apply(data)
	vrt.AssertNoErr(err, "deflate-apply-ok")
	dec, err := f.Remove(enc)
	vrt.AssertNoErr(err, "deflate-remove-ok")
	vrt.Assert(verifEq(dec, data), "deflate-roundtrip")
	p := NewFilterPipeline()
	p.AddFilter(f)
	back, err := verifReaderPipeline(p).ApplyFilters(enc)
	vrt.AssertNoErr(err, "reader-decodes-deflate")
	vrt.Assert(verifEq(back, data), "reader-deflate-roundtrip")
	vrt.Covered("deflate-done")
}

// deflate on chunks around the inflater's 32 KiB window: a payload of n bytes (forked over 32767..40000) that starts
// with 6000 incompressible bytes (so the stream is several KiB long) and continues with a constant, encoded at a
// forked level, must come back complete from both decoders. The payload is concrete (the compressor's hash tables
// over symbolic bytes are out of reach); the forks are the decision inputs.
func VerifH_C08_deflate_window_thorough() {
	vrt.LoopBound(3000000)
	n := []int{32767, 32768, 32769, 33000, 40000}[vrt.Choice(5)]
	level := []int{1, 6, 9}[vrt.Choice(3)]
	data := make([]byte, n)
	x := uint32(12345)
	for i := 0; i < 6000; i++ {
		x = x*1664525 + 1013904223
		data[i] = byte(x >> 24)
	}
	for i := 6000; i < n; i++ {
		data[i] = 7
	}
	f := NewGZIPFilter(level)
	enc, err := f.Apply(data)
	vrt.AssertNoErr(err, "deflate-apply-ok")
	dec, err := f.Remove(enc)
	vrt.AssertNoErr(err, "deflate-remove-ok")
	vrt.Assert(len(dec) == n && verifEq(dec, data), "deflate-roundtrip")
	p := NewFilterPipeline()
	p.AddFilter(f)
	back, err := verifReaderPipeline(p).ApplyFilters(enc)
	vrt.AssertNoErr(err, "reader-decodes-deflate")
	vrt.Assert(len(back) == n, "reader-deflate-length")
	vrt.Assert(verifEq(back, data), "reader-deflate-roundtrip")
	vrt.Covered("deflate-window-done")
}
