//go:build verif

package hdf5

import (
	"encoding/binary"
	"math"

	"github.com/scigolib/hdf5/internal/core"
	"github.com/scigolib/hdf5/internal/vrt"
)

func verifFindDataset(f *File, path string) *Dataset {
	var found *Dataset
	f.Walk(func(p string, obj Object) {
		if d, ok := obj.(*Dataset); ok && p == path {
			found = d
		}
	})
	return found
}

func verifVersion() uint8 {
	versions := [3]uint8{0, 2, 3}
	return versions[vrt.Choice(3)]
}

// verifWriteReopen creates file, one dataset "/d" of the given type/dims/options, writes data, closes and reopens.
func verifWriteReopen(name string, ver uint8, dt Datatype, dims []uint64, data interface{}, opts ...DatasetOption) (*File, *Dataset) {
	fw, err := CreateForWrite(name, CreateTruncate, WithSuperblockVersion(ver))
	vrt.AssertNoErr(err, "create-ok")
	ds, err := fw.CreateDataset("/d", dt, dims, opts...)
	vrt.AssertNoErr(err, "create-dataset-ok")
	vrt.AssertNoErr(ds.Write(data), "write-ok")
	vrt.AssertNoErr(fw.Close(), "close-ok")
	f, err := Open(name)
	vrt.AssertNoErr(err, "reopen-ok")
	d := verifFindDataset(f, "/d")
	vrt.Assert(d != nil, "dataset-found-at-path")
	return f, d
}

// C01 E-tier: contiguous float64 dataset through the public API, superblock version forked,
// n in 1..3 forked, every element bit pattern symbolic.
func VerifH_C01_api_contig_f64() {
	ver := verifVersion()
	n := 1 + vrt.Choice(3)
	data := make([]float64, n)
	for i := range data {
		data[i] = math.Float64frombits(vrt.U64())
	}
	f, d := verifWriteReopen("c01.h5", ver, Float64, []uint64{uint64(n)}, data)
	got, err := d.Read()
	vrt.AssertNoErr(err, "f64-read-ok")
	vrt.Assert(len(got) == n, "same-shape")
	for i := range data {
		vrt.Assert(math.Float64bits(got[i]) == math.Float64bits(data[i]), "f64-values-bit-exact")
	}
	vrt.Covered("read-back")
	_ = f.Close()
}

func VerifH_C01_api_contig_f32() {
	ver := verifVersion()
	n := 1 + vrt.Choice(2)
	data := make([]float32, n)
	for i := range data {
		data[i] = math.Float32frombits(vrt.U32())
	}
	f, d := verifWriteReopen("c01.h5", ver, Float32, []uint64{uint64(n)}, data)
	got, err := d.Read()
	if err == nil {
		vrt.Assert(len(got) == n, "same-shape")
		for i := range data {
			w := float64(data[i])
			if data[i] != data[i] {
				vrt.Assert(got[i] != got[i], "f32-nan-stays-nan")
			} else {
				vrt.Assert(math.Float64bits(got[i]) == math.Float64bits(w), "f32-values-exact")
			}
		}
	}
	vrt.Covered("read-back")
	_ = f.Close()
}

// integer types: Read() widens to float64; the value must be float64(v) for either signedness, or an error.
func verifIntCheck(got []float64, err error, want []float64) {
	if err != nil {
		return // no typed read for this element type: an error is allowed, different values are not
	}
	vrt.Assert(len(got) == len(want), "same-shape")
	for i := range want {
		vrt.Assert(got[i] == want[i], "int-values-exact")
	}
}

func VerifH_C01_api_contig_i32() {
	ver := verifVersion()
	n := 1 + vrt.Choice(2)
	data := make([]int32, n)
	want := make([]float64, n)
	for i := range data {
		data[i] = vrt.I32()
		want[i] = float64(data[i])
	}
	f, d := verifWriteReopen("c01.h5", ver, Int32, []uint64{uint64(n)}, data)
	got, err := d.Read()
	verifIntCheck(got, err, want)
	_ = f.Close()
}

func VerifH_C01_api_contig_u32() {
	ver := verifVersion()
	n := 1 + vrt.Choice(2)
	data := make([]uint32, n)
	want := make([]float64, n)
	for i := range data {
		data[i] = vrt.U32()
		want[i] = float64(data[i])
	}
	f, d := verifWriteReopen("c01.h5", ver, Uint32, []uint64{uint64(n)}, data)
	got, err := d.Read()
	verifIntCheck(got, err, want)
	_ = f.Close()
}

func VerifH_C01_api_contig_i64() {
	ver := verifVersion()
	n := 1 + vrt.Choice(2)
	data := make([]int64, n)
	want := make([]float64, n)
	for i := range data {
		data[i] = vrt.I64()
		want[i] = float64(data[i])
	}
	f, d := verifWriteReopen("c01.h5", ver, Int64, []uint64{uint64(n)}, data)
	got, err := d.Read()
	verifIntCheck(got, err, want)
	_ = f.Close()
}

func VerifH_C01_api_contig_u64() {
	ver := verifVersion()
	n := 1 + vrt.Choice(2)
	data := make([]uint64, n)
	want := make([]float64, n)
	for i := range data {
		data[i] = vrt.U64()
		want[i] = float64(data[i])
	}
	f, d := verifWriteReopen("c01.h5", ver, Uint64, []uint64{uint64(n)}, data)
	got, err := d.Read()
	verifIntCheck(got, err, want)
	_ = f.Close()
}

func VerifH_C01_api_contig_i16() {
	ver := verifVersion()
	data := []int16{int16(vrt.U16()), int16(vrt.U16())}
	want := []float64{float64(data[0]), float64(data[1])}
	f, d := verifWriteReopen("c01.h5", ver, Int16, []uint64{2}, data)
	got, err := d.Read()
	verifIntCheck(got, err, want)
	_ = f.Close()
}

func VerifH_C01_api_contig_u8() {
	ver := verifVersion()
	data := []uint8{vrt.U8(), vrt.U8(), vrt.U8()}
	want := []float64{float64(data[0]), float64(data[1]), float64(data[2])}
	f, d := verifWriteReopen("c01.h5", ver, Uint8, []uint64{3}, data)
	got, err := d.Read()
	verifIntCheck(got, err, want)
	_ = f.Close()
}

// rank 2 and 3 contiguous float64: shape and row-major values.
func VerifH_C01_api_contig_rank() {
	ver := verifVersion()
	rank := 2 + vrt.Choice(2)
	dims := make([]uint64, rank)
	total := 1
	for i := range dims {
		dims[i] = uint64(1 + vrt.Choice(2))
		total *= int(dims[i])
	}
	data := make([]float64, total)
	for i := range data {
		data[i] = math.Float64frombits(vrt.U64())
	}
	f, d := verifWriteReopen("c01.h5", ver, Float64, dims, data)
	got, err := d.Read()
	vrt.AssertNoErr(err, "f64-read-ok")
	vrt.Assert(len(got) == total, "same-shape")
	for i := range data {
		vrt.Assert(math.Float64bits(got[i]) == math.Float64bits(data[i]), "f64-values-bit-exact")
	}
	vrt.Covered("read-back")
	_ = f.Close()
}

// fixed-length strings
func VerifH_C01_api_strings() {
	ver := verifVersion()
	size := 1 + vrt.Choice(4)
	n := 1 + vrt.Choice(2)
	data := make([]string, n)
	for i := range data {
		l := vrt.Choice(size + 1)
		b := vrt.Bytes(l)
		for _, c := range b {
			vrt.Assume(c != 0) // embedded NUL is padding in a fixed-length string
		}
		data[i] = string(b)
	}
	f, d := verifWriteReopen("c01.h5", ver, String, []uint64{uint64(n)}, data, WithStringSize(uint32(size)))
	got, err := d.ReadStrings()
	if err == nil {
		vrt.Assert(len(got) == n, "same-shape")
		for i := range data {
			vrt.Assert(got[i] == data[i], "string-bytes-exact")
		}
	}
	vrt.Covered("read-back")
	_ = f.Close()
}

// chunked float64, rank 1..2, extents 1..4, chunk extents 1..extent: includes partial edge chunks and many chunks per dimension.
func VerifH_C01_api_chunked_f64() {
	ver := verifVersion()
	rank := 1 + vrt.Choice(2)
	maxExt := 4
	if rank == 2 {
		maxExt = 3
	}
	dims := make([]uint64, rank)
	chunk := make([]uint64, rank)
	total := 1
	for i := range dims {
		dims[i] = uint64(1 + vrt.Choice(maxExt))
		chunk[i] = uint64(1 + vrt.Choice(int(dims[i])))
		total *= int(dims[i])
	}
	data := make([]float64, total)
	for i := range data {
		data[i] = math.Float64frombits(vrt.U64())
	}
	f, d := verifWriteReopen("c01.h5", ver, Float64, dims, data, WithChunkDims(chunk))
	got, err := d.Read()
	vrt.AssertNoErr(err, "chunked-read-ok")
	vrt.Assert(len(got) == total, "same-shape")
	for i := range data {
		vrt.Assert(math.Float64bits(got[i]) == math.Float64bits(data[i]), "chunked-values-bit-exact")
	}
	vrt.Covered("read-back")
	_ = f.Close()
}

// rank 3 chunked float64 (superblock v2): extents 2..3, chunk extents 1..2 — clipped middle and last dimensions.
func VerifH_C01_api_chunked_rank3() {
	dims := make([]uint64, 3)
	chunk := make([]uint64, 3)
	total := 1
	for i := range dims {
		dims[i] = uint64(2 + vrt.Choice(2))
		chunk[i] = uint64(1 + vrt.Choice(2))
		total *= int(dims[i])
	}
	data := make([]float64, total)
	for i := range data {
		data[i] = math.Float64frombits(vrt.U64())
	}
	f, d := verifWriteReopen("c01r3.h5", 2, Float64, dims, data, WithChunkDims(chunk))
	got, err := d.Read()
	vrt.AssertNoErr(err, "chunked-read-ok")
	vrt.Assert(len(got) == total, "same-shape")
	for i := range data {
		vrt.Assert(math.Float64bits(got[i]) == math.Float64bits(data[i]), "chunked-values-bit-exact")
	}
	vrt.Covered("read-back")
	_ = f.Close()
}

// chunked int32 rank 2 with a 4-wide last dimension (chunk 3: partial edge chunk in the fastest dimension)
func VerifH_C01_api_chunked_i32() {
	ver := verifVersion()
	dims := []uint64{uint64(1 + vrt.Choice(3)), 4}
	chunk := []uint64{uint64(1 + vrt.Choice(int(dims[0]))), uint64(1 + vrt.Choice(4))}
	total := int(dims[0]) * 4
	data := make([]int32, total)
	want := make([]float64, total)
	for i := range data {
		data[i] = vrt.I32()
		want[i] = float64(data[i])
	}
	f, d := verifWriteReopen("c01ci.h5", ver, Int32, dims, data, WithChunkDims(chunk))
	got, err := d.Read()
	vrt.AssertNoErr(err, "chunked-read-ok")
	verifIntCheck(got, err, want)
	vrt.Covered("read-back")
	_ = f.Close()
}

// compound datasets: struct { int32 id; float32 v; float64 w } (subset of members and member order forked), n records,
// every field bit pattern symbolic; written with WriteRaw, read back with ReadCompound: each member by name
func VerifH_C01_api_compound() {
	ver := verifVersion()
	n := 1 + vrt.Choice(2)
	i32, err := core.CreateBasicDatatypeMessage(core.DatatypeFixed, 4)
	vrt.AssertNoErr(err, "member-type-ok")
	f32, err := core.CreateBasicDatatypeMessage(core.DatatypeFloat, 4)
	vrt.AssertNoErr(err, "member-type-ok")
	f64, err := core.CreateBasicDatatypeMessage(core.DatatypeFloat, 8)
	vrt.AssertNoErr(err, "member-type-ok")
	i32.ClassBitField |= 0x08 // signed
	var fields []core.CompoundFieldDef
	switch vrt.Choice(3) {
	case 0:
		fields = []core.CompoundFieldDef{{Name: "id", Offset: 0, Type: i32}, {Name: "v", Offset: 4, Type: f32}}
	case 1:
		fields = []core.CompoundFieldDef{{Name: "w", Offset: 0, Type: f64}, {Name: "id", Offset: 8, Type: i32}}
	default:
		fields = []core.CompoundFieldDef{{Name: "id", Offset: 0, Type: i32}, {Name: "v", Offset: 4, Type: f32}, {Name: "w", Offset: 8, Type: f64}}
	}
	ct, err := core.CreateCompoundTypeFromFields(fields)
	vrt.AssertNoErr(err, "compound-type-ok")
	rec := int(ct.Size)
	raw := vrt.Bytes(rec * n)
	fw, err := CreateForWrite("c01c.h5", CreateTruncate, WithSuperblockVersion(ver))
	vrt.AssertNoErr(err, "create-ok")
	ds, err := fw.CreateCompoundDataset("/d", ct, []uint64{uint64(n)})
	vrt.AssertNoErr(err, "create-dataset-ok")
	vrt.AssertNoErr(ds.WriteRaw(raw), "write-ok")
	vrt.AssertNoErr(fw.Close(), "close-ok")
	f, err := Open("c01c.h5")
	vrt.AssertNoErr(err, "reopen-ok")
	d := verifFindDataset(f, "/d")
	vrt.Assert(d != nil, "dataset-found-at-path")
	got, err := d.ReadCompound()
	vrt.AssertNoErr(err, "compound-read-ok")
	vrt.Assert(len(got) == n, "same-shape")
	if err == nil && len(got) == n {
		for r := 0; r < n; r++ {
			for _, fd := range fields {
				b := raw[r*rec+int(fd.Offset):]
				v, ok := got[r][fd.Name]
				vrt.Assert(ok, "compound-member-present")
				switch fd.Name {
				case "id":
					x, isT := v.(int32)
					vrt.Assert(isT && uint32(x) == binary.LittleEndian.Uint32(b[:4]), "compound-int32-exact")
				case "v":
					x, isT := v.(float32)
					vrt.Assert(isT && math.Float32bits(x) == binary.LittleEndian.Uint32(b[:4]), "compound-float32-bit-exact")
				case "w":
					x, isT := v.(float64)
					vrt.Assert(isT && math.Float64bits(x) == binary.LittleEndian.Uint64(b[:8]), "compound-float64-bit-exact")
				}
			}
		}
	}
	vrt.Covered("read-back")
	_ = f.Close()
}
