//go:build verif

package hdf5

import (
	"math"

	"github.com/scigolib/hdf5/internal/vrt"
)

// model value of an attribute: kind 0 = int32, 1 = float64, 2 = string, 3 = []int32 (len 2)
type verifAttr struct {
	kind int
	i    int32
	f    uint64
	s    string
	v    [2]int32
}

func verifAttrValue() (verifAttr, interface{}) {
	switch vrt.Choice(4) {
	case 0:
		x := vrt.I32()
		return verifAttr{kind: 0, i: x}, x
	case 1:
		b := vrt.U64()
		return verifAttr{kind: 1, f: b}, math.Float64frombits(b)
	case 2:
		n := 1 + vrt.Choice(3)
		bs := vrt.Bytes(n)
		for _, c := range bs {
			vrt.Assume(c != 0)
		}
		return verifAttr{kind: 2, s: string(bs)}, string(bs)
	default:
		a, b := vrt.I32(), vrt.I32()
		return verifAttr{kind: 3, v: [2]int32{a, b}}, []int32{a, b}
	}
}

func verifAttrCheck(got interface{}, want verifAttr) {
	switch want.kind {
	case 0:
		x, ok := got.(int32)
		vrt.Assert(ok, "attr-type-int32")
		if ok {
			vrt.Assert(x == want.i, "attr-value-int32")
		}
	case 1:
		x, ok := got.(float64)
		vrt.Assert(ok, "attr-type-float64")
		if ok {
			vrt.Assert(math.Float64bits(x) == want.f, "attr-value-float64")
		}
	case 2:
		x, ok := got.(string)
		vrt.Assert(ok, "attr-type-string")
		if ok {
			vrt.Assert(x == want.s, "attr-value-string")
		}
	case 3:
		x, ok := got.([]int32)
		vrt.Assert(ok, "attr-type-int32-slice")
		if ok {
			vrt.Assert(len(x) == 2, "attr-shape")
			if len(x) == 2 {
				vrt.Assert(x[0] == want.v[0] && x[1] == want.v[1], "attr-value-int32-slice")
			}
		}
	}
}

// verifAttrScript: `prefix` concrete writes of distinct names, then `nops` symbolic operations
// (upsert of any kind / delete, on a present or absent name), close, reopen, compare with the model map.
func verifAttrScript(ver uint8, prefix, nops int) { verifAttrScriptFirst(ver, prefix, nops, -1) }

// first >= 0 fixes the name used by the first operation (the thorough three-operation scripts are split by it so
// that the parts run in parallel and each finishes inside the time budget)
func verifAttrScriptFirst(ver uint8, prefix, nops, first int) {
	fw, err := CreateForWrite("c02.h5", CreateTruncate, WithSuperblockVersion(ver))
	vrt.AssertNoErr(err, "create-ok")
	ds, err := fw.CreateDataset("/d", Int32, []uint64{1})
	vrt.AssertNoErr(err, "create-dataset-ok")
	vrt.AssertNoErr(ds.Write([]int32{7}), "write-ok")
	names := []string{"a0", "a1", "a2", "a3", "a4", "a5", "a6", "a7", "a8", "a9"}
	model := map[string]verifAttr{}
	order := []string{}
	for i := 0; i < prefix; i++ {
		x := int32(100 + i)
		vrt.AssertNoErr(ds.WriteAttribute(names[i], x), "prefix-attr-write-ok")
		model[names[i]] = verifAttr{kind: 0, i: x}
		order = append(order, names[i])
	}
	for k := 0; k < nops; k++ {
		// name: one of the first two existing names or a new one
		var name string
		pick := first
		if k > 0 || first < 0 {
			pick = vrt.Choice(3)
		}
		switch pick {
		case 0:
			name = names[0]
		case 1:
			name = names[1]
		default:
			name = names[9]
		}
		if vrt.Bool() {
			mv, val := verifAttrValue()
			err := ds.WriteAttribute(name, val)
			if err == nil {
				if _, ok := model[name]; !ok {
					order = append(order, name)
				}
				model[name] = mv
			}
		} else {
			err := ds.DeleteAttribute(name)
			_, present := model[name]
			if present {
				vrt.AssertNoErr(err, "delete-present-ok")
			}
			if err == nil {
				delete(model, name)
			}
		}
	}
	vrt.AssertNoErr(fw.Close(), "close-ok")
	f, err := Open("c02.h5")
	vrt.AssertNoErr(err, "reopen-ok")
	d := verifFindDataset(f, "/d")
	vrt.Assert(d != nil, "dataset-found-at-path")
	list, err := d.ListAttributes()
	vrt.AssertNoErr(err, "list-attributes-ok")
	// names unique, exactly the model's key set
	seen := map[string]bool{}
	for _, n := range list {
		vrt.Assert(!seen[n], "attr-names-unique")
		seen[n] = true
		_, ok := model[n]
		vrt.Assert(ok, "attr-deleted-or-unknown-name-visible")
	}
	for _, n := range order {
		if mv, ok := model[n]; ok {
			vrt.Assert(seen[n], "attr-missing")
			got, err := d.ReadAttribute(n)
			vrt.AssertNoErr(err, "attr-read-ok")
			verifAttrCheck(got, mv)
		}
	}
	// the dataset itself is untouched
	vals, err := d.Read()
	vrt.AssertNoErr(err, "data-read-ok")
	vrt.Assert(len(vals) == 1 && vals[0] == 7, "data-unchanged")
	vrt.Covered("attrs-compared")
	_ = f.Close()
}

// compact storage: 2 existing attributes, 2 symbolic operations
func VerifH_C02_api_compact() { verifAttrScript(2, 2, 2) }

// superblock v0 (object header v1)
func VerifH_C02_api_compact_v0() { verifAttrScript(0, 2, 1) }

// at the compact->dense threshold: 7 existing, 2 symbolic operations (8th attribute triggers the migration)
func VerifH_C02_api_threshold() { verifAttrScript(2, 7, 2) }

// in dense storage: 9 existing, 2 symbolic operations
func VerifH_C02_api_dense() { verifAttrScript(2, 9, 2) }

func VerifH_C02_api_compact3_thorough() { verifAttrScript(2, 2, 3) }
func VerifH_C02_api_threshold3_first0_thorough() { verifAttrScriptFirst(2, 7, 3, 0) }
func VerifH_C02_api_threshold3_first1_thorough() { verifAttrScriptFirst(2, 7, 3, 1) }
func VerifH_C02_api_threshold3_new_thorough()    { verifAttrScriptFirst(2, 7, 3, 2) }
func VerifH_C02_api_dense3_first0_thorough()     { verifAttrScriptFirst(3, 9, 3, 0) }
func VerifH_C02_api_dense3_first1_thorough()     { verifAttrScriptFirst(3, 9, 3, 1) }
func VerifH_C02_api_dense3_new_thorough()        { verifAttrScriptFirst(3, 9, 3, 2) }

// dense storage shrunk to a single attribute, then size-changing overwrite and additions (the heap becomes empty
// in the middle of a delete-then-insert overwrite)
func VerifH_C02_api_dense_singleton() {
	fw, err := CreateForWrite("c02s.h5", CreateTruncate)
	vrt.AssertNoErr(err, "create-ok")
	ds, err := fw.CreateDataset("/d", Int32, []uint64{1})
	vrt.AssertNoErr(err, "create-dataset-ok")
	vrt.AssertNoErr(ds.Write([]int32{7}), "write-ok")
	names := []string{"a0", "a1", "a2", "a3", "a4", "a5", "a6", "a7", "a8"}
	for i, n := range names {
		vrt.AssertNoErr(ds.WriteAttribute(n, int32(i)), "prefix-attr-write-ok")
	}
	keep := vrt.Choice(2) // which attribute survives: the first or the last written
	kept := names[0]
	if keep == 1 {
		kept = names[8]
	}
	for _, n := range names {
		if n != kept {
			vrt.AssertNoErr(ds.DeleteAttribute(n), "delete-present-ok")
		}
	}
	model := map[string]verifAttr{}
	// overwrite the survivor with a value of another size (symbolic content), then add attributes
	mv, val := verifAttrValue()
	vrt.AssertNoErr(ds.WriteAttribute(kept, val), "overwrite-singleton-ok")
	model[kept] = mv
	nadd := 1 + vrt.Choice(2)
	added := []string{"n0", "n1"}
	for i := 0; i < nadd; i++ {
		x := vrt.I32()
		vrt.AssertNoErr(ds.WriteAttribute(added[i], x), "add-after-overwrite-ok")
		model[added[i]] = verifAttr{kind: 0, i: x}
	}
	vrt.AssertNoErr(fw.Close(), "close-ok")
	f, err := Open("c02s.h5")
	vrt.AssertNoErr(err, "reopen-ok")
	d := verifFindDataset(f, "/d")
	vrt.Assert(d != nil, "dataset-found-at-path")
	list, err := d.ListAttributes()
	vrt.AssertNoErr(err, "list-attributes-ok")
	vrt.Assert(len(list) == len(model), "attr-count-as-model")
	for _, n := range []string{kept, "n0", "n1"} {
		if want, ok := model[n]; ok {
			got, err := d.ReadAttribute(n)
			vrt.AssertNoErr(err, "attr-read-ok")
			verifAttrCheck(got, want)
		}
	}
	vrt.Covered("attrs-compared")
	_ = f.Close()
}

func verifLongString(n int, c0 byte) string {
	b := make([]byte, n)
	for i := range b {
		b[i] = 'a' + byte(i%26)
	}
	b[0] = c0
	b[n-1] = c0
	return string(b)
}

// the first attribute is too large for the object header and goes straight to dense storage (a heap holding a single
// object); it is overwritten with another size (smaller / larger, forked), then more attributes are added
func VerifH_C02_api_dense_first_big() {
	vrt.LoopBound(3000)
	fw, err := CreateForWrite("c02b.h5", CreateTruncate)
	vrt.AssertNoErr(err, "create-ok")
	ds, err := fw.CreateDataset("/d", Int32, []uint64{1})
	vrt.AssertNoErr(err, "create-dataset-ok")
	vrt.AssertNoErr(ds.Write([]int32{7}), "write-ok")
	c := 'A' + vrt.U8()%26
	vrt.AssertNoErr(ds.WriteAttribute("desc", verifLongString(300, c)), "big-first-attr-ok")
	n2 := []int{200, 300, 340, 400}[vrt.Choice(4)]
	second := verifLongString(n2, 'A'+vrt.U8()%26)
	vrt.AssertNoErr(ds.WriteAttribute("desc", second), "overwrite-singleton-ok")
	model := map[string]string{"desc": second}
	nadd := 1 + vrt.Choice(2)
	names := []string{"units", "note"}
	for i := 0; i < nadd; i++ {
		v := verifLongString(6+60*vrt.Choice(2), 'A'+vrt.U8()%26)
		vrt.AssertNoErr(ds.WriteAttribute(names[i], v), "add-after-overwrite-ok")
		model[names[i]] = v
	}
	vrt.AssertNoErr(fw.Close(), "close-ok")
	f, err := Open("c02b.h5")
	vrt.AssertNoErr(err, "reopen-ok")
	d := verifFindDataset(f, "/d")
	vrt.Assert(d != nil, "dataset-found-at-path")
	list, err := d.ListAttributes()
	vrt.AssertNoErr(err, "list-attributes-ok")
	vrt.Assert(len(list) == len(model), "attr-count-as-model")
	for _, n := range []string{"desc", "units", "note"} {
		if want, ok := model[n]; ok {
			got, err := d.ReadAttribute(n)
			vrt.AssertNoErr(err, "attr-read-ok")
			gs, isS := got.(string)
			vrt.Assert(isS, "attr-type-string")
			vrt.Assert(gs == want, "attr-value-string")
		}
	}
	vrt.Covered("attrs-compared")
	_ = f.Close()
}

// dense storage with names that differ only in their last byte (lengths 11, 12 and 24: block boundaries of the
// name hash): operations on one name never affect its sibling
func VerifH_C02_api_dense_similar_names() {
	pairs := [][2]string{{"temperatur1", "temperatur2"}, {"temperature1", "temperature2"}, {"temperature_sensor_no_01", "temperature_sensor_no_02"}}
	verifSimilarNames(pairs[vrt.Choice(3)])
}

// two 16-byte names that differ in exactly one byte, at a position forked over the whole name
func VerifH_C02_api_dense_names_one_byte_apart() {
	a := []byte("sensor_reading_A")
	b := []byte("sensor_reading_A")
	p := vrt.Choice(len(a))
	b[p] ^= 0x01 + 0x02*byte(vrt.Choice(2))
	verifSimilarNames([2]string{string(a), string(b)})
}

func verifSimilarNames(pr [2]string) {
	vrt.LoopBound(3000)
	fw, err := CreateForWrite("c02n.h5", CreateTruncate)
	vrt.AssertNoErr(err, "create-ok")
	ds, err := fw.CreateDataset("/d", Int32, []uint64{1})
	vrt.AssertNoErr(err, "create-dataset-ok")
	vrt.AssertNoErr(ds.Write([]int32{7}), "write-ok")
	names := []string{"f0", "f1", "f2", "f3", "f4", "f5", "f6", pr[0], pr[1]}
	model := map[string]int32{}
	for i, n := range names {
		v := int32(10 + i)
		vrt.AssertNoErr(ds.WriteAttribute(n, v), "prefix-attr-write-ok")
		model[n] = v
	}
	// one symbolic operation on the first name of the pair
	switch vrt.Choice(3) {
	case 0:
		v := vrt.I32()
		vrt.AssertNoErr(ds.WriteAttribute(pr[0], v), "overwrite-ok")
		model[pr[0]] = v
	case 1:
		vrt.AssertNoErr(ds.DeleteAttribute(pr[0]), "delete-present-ok")
		delete(model, pr[0])
	case 2:
	}
	vrt.AssertNoErr(fw.Close(), "close-ok")
	f, err := Open("c02n.h5")
	vrt.AssertNoErr(err, "reopen-ok")
	d := verifFindDataset(f, "/d")
	vrt.Assert(d != nil, "dataset-found-at-path")
	list, err := d.ListAttributes()
	vrt.AssertNoErr(err, "list-attributes-ok")
	vrt.Assert(len(list) == len(model), "attr-count-as-model")
	for _, n := range names {
		if want, ok := model[n]; ok {
			got, err := d.ReadAttribute(n)
			vrt.AssertNoErr(err, "attr-read-ok")
			gi, isI := got.(int32)
			vrt.Assert(isI && gi == want, "attr-value-int32")
		}
	}
	vrt.Covered("attrs-compared")
	_ = f.Close()
}

// a 1-D attribute value with a single element keeps its shape: []int32{x} reads back as a slice, int32 as a scalar
// (known finding KF-C02-one-element-slice: scalars and one-element slices are both stored with dataspace [1])
func VerifH_C02_api_one_element_slice() {
	fw, err := CreateForWrite("c02s.h5", CreateTruncate)
	vrt.AssertNoErr(err, "create-ok")
	ds, err := fw.CreateDataset("/d", Int32, []uint64{1})
	vrt.AssertNoErr(err, "create-dataset-ok")
	vrt.AssertNoErr(ds.Write([]int32{7}), "write-ok")
	x, y := vrt.I32(), vrt.I32()
	vrt.AssertNoErr(ds.WriteAttribute("scalar", x), "prefix-attr-write-ok")
	vrt.AssertNoErr(ds.WriteAttribute("one", []int32{y}), "prefix-attr-write-ok")
	vrt.AssertNoErr(fw.Close(), "close-ok")
	f, err := Open("c02s.h5")
	vrt.AssertNoErr(err, "reopen-ok")
	d := verifFindDataset(f, "/d")
	vrt.Assert(d != nil, "dataset-found-at-path")
	got, err := d.ReadAttribute("scalar")
	vrt.AssertNoErr(err, "attr-read-ok")
	gi, ok := got.(int32)
	vrt.Assert(ok && gi == x, "attr-value-int32")
	vrt.Covered("attrs-compared")
	got, err = d.ReadAttribute("one")
	vrt.AssertNoErr(err, "attr-read-ok")
	gs, ok := got.([]int32)
	vrt.Assert(ok && len(gs) == 1 && gs[0] == y, "one-element-slice-keeps-its-shape")
	_ = f.Close()
}

// attribute data beyond one 64 KiB heap block: n string attributes of 6000 bytes (n = 9, 10: one block; 11, 12: the
// heap has to grow); every accepted write reads back, refused writes are absent
// (known finding KF-C02-heap-beyond-one-block: the write that makes the heap grow is accepted and its value is lost)
func VerifH_C02_api_dense_volume() {
	vrt.LoopBound(200000)
	fw, err := CreateForWrite("c02v.h5", CreateTruncate)
	vrt.AssertNoErr(err, "create-ok")
	ds, err := fw.CreateDataset("/d", Int32, []uint64{1})
	vrt.AssertNoErr(err, "create-dataset-ok")
	vrt.AssertNoErr(ds.Write([]int32{7}), "write-ok")
	n := 9 + vrt.Choice(4)
	names := []string{"v00", "v01", "v02", "v03", "v04", "v05", "v06", "v07", "v08", "v09", "v10", "v11"}
	c0, c1 := 'a'+vrt.U8()%26, 'a'+vrt.U8()%26
	accepted := make([]bool, n)
	val := func(i int) []byte {
		b := make([]byte, 6000)
		for j := range b {
			b[j] = byte('a' + (i+j)%26)
		}
		b[0], b[5999] = c0, c1
		return b
	}
	for i := 0; i < n; i++ {
		accepted[i] = ds.WriteAttribute(names[i], string(val(i))) == nil
	}
	vrt.AssertNoErr(fw.Close(), "close-ok")
	f, err := Open("c02v.h5")
	vrt.AssertNoErr(err, "reopen-ok")
	d := verifFindDataset(f, "/d")
	vrt.Assert(d != nil, "dataset-found-at-path")
	list, err := d.ListAttributes()
	vrt.AssertNoErr(err, "list-attributes-ok")
	cnt := 0
	for i := 0; i < n; i++ {
		if accepted[i] {
			cnt++
		}
	}
	vrt.Assert(len(list) == cnt, "attr-count-as-model")
	vrt.Covered("attrs-compared")
	for i := 0; i < n; i++ {
		if !accepted[i] {
			continue
		}
		got, err := d.ReadAttribute(names[i])
		s, isS := got.(string)
		if i < 10 {
			vrt.AssertNoErr(err, "attr-read-ok")
			vrt.Assert(isS && s == string(val(i)), "attr-value-string")
		} else {
			vrt.Assert(err == nil && isS && s == string(val(i)), "large-volume-attr-readable")
		}
	}
	_ = f.Close()
}
