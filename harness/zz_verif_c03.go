//go:build verif

package hdf5

import (
	"github.com/scigolib/hdf5/internal/vrt"
)

// verifTree walks the reopened file and returns path -> kind ("group"/"dataset"/other) plus duplicates flag.
func verifTree(f *File) (map[string]string, bool) {
	tree := map[string]string{}
	dup := false
	f.Walk(func(p string, obj Object) {
		kind := "other"
		switch obj.(type) {
		case *Group:
			kind = "group"
		case *Dataset:
			kind = "dataset"
		}
		if _, ok := tree[p]; ok {
			dup = true
		}
		tree[p] = kind
	})
	return tree, dup
}

func verifNormGroupPath(p string) string {
	if p != "/" && len(p) > 0 && p[len(p)-1] != '/' {
		return p + "/"
	}
	return p
}

// C03 E-tier: up to k symbolic creations over a small path alphabet; reopen; tree == model.
// Model: a creation succeeds iff the parent exists and the name does not; otherwise it must be rejected.
func verifTreeScript(ver uint8, nops int) {
	fw, err := CreateForWrite("c03.h5", CreateTruncate, WithSuperblockVersion(ver))
	vrt.AssertNoErr(err, "create-ok")
	paths := []string{"/a", "/b", "/a/a", "/a/b", "/c/a"}
	parents := []string{"/", "/", "/a", "/a", "/c"}
	model := map[string]string{"/": "group"}
	for k := 0; k < nops; k++ {
		pi := vrt.Choice(len(paths))
		p := paths[pi]
		_, exists := model[p]
		pk, parentOK := model[parents[pi]]
		parentOK = parentOK && pk == "group"
		var err error
		kind := "group"
		if vrt.Bool() {
			_, err = fw.CreateGroup(p)
		} else {
			kind = "dataset"
			var ds *DatasetWriter
			ds, err = fw.CreateDataset(p, Int32, []uint64{1})
			if err == nil {
				vrt.AssertNoErr(ds.Write([]int32{int32(k)}), "write-ok")
			}
		}
		if exists {
			vrt.Assert(err != nil, "duplicate-name-rejected")
		}
		if !parentOK {
			vrt.Assert(err != nil, "missing-parent-rejected")
		}
		if !exists && parentOK {
			vrt.AssertNoErr(err, "valid-creation-accepted")
		}
		if err == nil && !exists {
			model[p] = kind
		}
	}
	vrt.AssertNoErr(fw.Close(), "close-ok")
	f, err := Open("c03.h5")
	vrt.AssertNoErr(err, "reopen-ok")
	tree, dup := verifTree(f)
	vrt.Assert(!dup, "no-name-twice")
	norm := map[string]string{}
	for p, k := range tree {
		q := p
		if len(q) > 1 && q[len(q)-1] == '/' {
			q = q[:len(q)-1]
		}
		norm[q] = k
	}
	for p, k := range model {
		got, ok := norm[p]
		vrt.Assert(ok, "created-path-present")
		if ok {
			vrt.Assert(got == k, "object-kind")
		}
	}
	for p := range norm {
		_, ok := model[p]
		vrt.Assert(ok, "no-extra-path")
	}
	vrt.Covered("tree-compared")
	_ = f.Close()
}

func VerifH_C03_api_tree_v2() { verifTreeScript(2, 2) }
func VerifH_C03_api_tree_v0() { verifTreeScript(0, 2) }
func VerifH_C03_api_tree3_thorough() { verifTreeScript(2, 3) }

// hard links: link to an existing dataset resolves to the same object; missing parent / existing name rejected.
func VerifH_C03_api_hardlink() {
	fw, err := CreateForWrite("c03l.h5", CreateTruncate)
	vrt.AssertNoErr(err, "create-ok")
	_, err = fw.CreateGroup("/g")
	vrt.AssertNoErr(err, "group-ok")
	ds, err := fw.CreateDataset("/g/d", Int32, []uint64{2})
	vrt.AssertNoErr(err, "create-dataset-ok")
	x, y := vrt.I32(), vrt.I32()
	vrt.AssertNoErr(ds.Write([]int32{x, y}), "write-ok")
	links := []string{"/l", "/g/l", "/g/d", "/nope/l"}
	li := vrt.Choice(len(links))
	err = fw.CreateHardLink(links[li], "/g/d")
	switch li {
	case 2:
		vrt.Assert(err != nil, "duplicate-name-rejected")
	case 3:
		vrt.Assert(err != nil, "missing-parent-rejected")
	default:
		vrt.AssertNoErr(err, "valid-link-accepted")
	}
	vrt.AssertNoErr(fw.Close(), "close-ok")
	f, err := Open("c03l.h5")
	vrt.AssertNoErr(err, "reopen-ok")
	orig := verifFindDataset(f, "/g/d")
	vrt.Assert(orig != nil, "target-still-present")
	if li < 2 {
		l := verifFindDataset(f, links[li])
		vrt.Assert(l != nil, "link-present")
		if l != nil && orig != nil {
			vrt.Assert(l.Address() == orig.Address(), "link-resolves-to-target")
		}
	}
	if orig != nil {
		v, err := orig.Read()
		vrt.AssertNoErr(err, "target-read-ok")
		vrt.Assert(len(v) == 2 && v[0] == float64(x) && v[1] == float64(y), "target-data-unchanged")
	}
	vrt.Covered("links-compared")
	_ = f.Close()
}

// per-group capacity: n members in one group, n forked around the symbol-table capacity (31, 32, 33, 34): every creation
// either fails, or the member is present after reopen; the file always reopens.
func verifCapacityScript(group string) {
	vrt.LoopBound(2000)
	fw, err := CreateForWrite("c03c.h5", CreateTruncate)
	vrt.AssertNoErr(err, "create-ok")
	prefix := "/"
	if group != "" {
		_, err := fw.CreateGroup(group)
		vrt.AssertNoErr(err, "group-ok")
		prefix = group + "/"
	}
	n := 31 + vrt.Choice(4)
	names := make([]string, 0, n)
	digits := "0123456789abcdefghijklmnopqrstuvwxyz"
	created := map[string]bool{}
	for i := 0; i < n; i++ {
		name := prefix + "m" + string(digits[i])
		var err error
		if i%2 == 0 {
			_, err = fw.CreateGroup(name)
		} else {
			var d *DatasetWriter
			d, err = fw.CreateDataset(name, Int32, []uint64{1})
			if err == nil {
				vrt.AssertNoErr(d.Write([]int32{int32(i)}), "write-ok")
			}
		}
		if i < 30 {
			vrt.AssertNoErr(err, "member-below-capacity-accepted")
		}
		if err == nil {
			created[name] = true
			names = append(names, name)
		}
	}
	vrt.AssertNoErr(fw.Close(), "close-ok")
	f, err := Open("c03c.h5")
	vrt.AssertNoErr(err, "reopen-ok")
	tree, dup := verifTree(f)
	vrt.Assert(!dup, "no-name-twice")
	norm := map[string]bool{}
	for p := range tree {
		q := p
		if len(q) > 1 && q[len(q)-1] == '/' {
			q = q[:len(q)-1]
		}
		norm[q] = true
	}
	for _, nm := range names {
		vrt.Assert(norm[nm], "created-path-present")
	}
	count := 0
	for p := range norm {
		if len(p) > len(prefix) && p[:len(prefix)] == prefix && p != group {
			count++
		}
	}
	vrt.Assert(count == len(names), "no-extra-path")
	vrt.Covered("capacity-compared")
	_ = f.Close()
}

func VerifH_C03_api_capacity_root() { verifCapacityScript("") }
func VerifH_C03_api_capacity_group_thorough() { verifCapacityScript("/g") }

// duplicates requested after siblings that sort before / after the name were created (creation order is not name order)
func VerifH_C03_api_duplicate_orders() {
	fw, err := CreateForWrite("c03d.h5", CreateTruncate)
	vrt.AssertNoErr(err, "create-ok")
	names := []string{"/alpha", "/mid", "/zeta"}
	perm := [][]int{{0, 1, 2}, {2, 1, 0}, {1, 2, 0}, {2, 0, 1}}[vrt.Choice(4)]
	for _, i := range perm {
		if vrt.Bool() {
			_, err = fw.CreateGroup(names[i])
		} else {
			_, err = fw.CreateDataset(names[i], Int32, []uint64{1})
		}
		vrt.AssertNoErr(err, "valid-creation-accepted")
	}
	dup := names[vrt.Choice(3)]
	switch vrt.Choice(3) {
	case 0:
		_, err = fw.CreateGroup(dup)
	case 1:
		_, err = fw.CreateDataset(dup, Int32, []uint64{1})
	default:
		err = fw.CreateSoftLink(dup, "/alpha")
	}
	vrt.Assert(err != nil, "duplicate-name-rejected")
	vrt.AssertNoErr(fw.Close(), "close-ok")
	f, err := Open("c03d.h5")
	vrt.AssertNoErr(err, "reopen-ok")
	_, dupSeen := verifTree(f)
	vrt.Assert(!dupSeen, "no-name-twice")
	vrt.Covered("duplicates-checked")
	_ = f.Close()
}

// dense groups (link storage in a fractal heap + name index): k links (1, 2, 3 or 9: above the dense threshold) to two
// existing datasets; after reopen the group lists exactly the link names and every link leads to its target's data.
// (Known finding KF-C03-dense-group-links: the reader has no dense link storage support; the labels about the links are
// separate from the ones about the group itself and the rest of the tree.)
func VerifH_C03_api_dense_group() {
	vrt.LoopBound(20000)
	fw, err := CreateForWrite("c03g.h5", CreateTruncate)
	vrt.AssertNoErr(err, "create-ok")
	va, vb := vrt.I32(), vrt.I32()
	a, err := fw.CreateDataset("/a", Int32, []uint64{1})
	vrt.AssertNoErr(err, "valid-creation-accepted")
	vrt.AssertNoErr(a.Write([]int32{va}), "write-ok")
	b, err := fw.CreateDataset("/b", Int32, []uint64{1})
	vrt.AssertNoErr(err, "valid-creation-accepted")
	vrt.AssertNoErr(b.Write([]int32{vb}), "write-ok")
	k := []int{1, 2, 3, 9}[vrt.Choice(4)]
	names := []string{"x", "y", "link_with_a_longer_name", "l3", "l4", "l5", "l6", "l7", "l8"}[:k]
	links := map[string]string{}
	for i, n := range names {
		links[n] = []string{"/a", "/b"}[i%2]
	}
	if k > 8 && vrt.Bool() {
		vrt.AssertNoErr(fw.CreateGroupWithLinks("/dg", links), "valid-creation-accepted") // above the threshold: dense
	} else {
		vrt.AssertNoErr(fw.CreateDenseGroup("/dg", links), "valid-creation-accepted")
	}
	vrt.Assert(fw.CreateDenseGroup("/dg", links) != nil, "duplicate-name-rejected")
	_, err = fw.CreateGroup("/dg")
	vrt.Assert(err != nil, "duplicate-name-rejected")
	vrt.AssertNoErr(fw.Close(), "close-ok")
	f, err := Open("c03g.h5")
	vrt.AssertNoErr(err, "reopen-ok")
	tree, dup := verifTree(f)
	vrt.Assert(!dup, "no-name-twice")
	vrt.Assert(tree["/dg/"] == "group" || tree["/dg"] == "group", "dense-group-present")
	vrt.Assert(tree["/a"] == "dataset" && tree["/b"] == "dataset", "tree-equals-model")
	count := 0
	for p := range tree {
		if len(p) > 4 && p[:4] == "/dg/" {
			count++
		}
	}
	vrt.Assert(count <= k, "dense-group-no-extra-links")
	vrt.Covered("tree-compared") // (before the obligations of the known finding: a definite failure ends the path)
	for i, n := range names {
		d := verifFindDataset(f, "/dg/"+n)
		vrt.Assert(d != nil, "dense-group-links-listed")
		if d != nil {
			got, err := d.Read()
			vrt.AssertNoErr(err, "link-target-readable")
			want := []int32{va, vb}[i%2]
			vrt.Assert(err != nil || (len(got) == 1 && got[0] == float64(want)), "link-leads-to-target")
		}
	}
	vrt.Assert(count == k, "dense-group-links-listed")
	_ = f.Close()
}
