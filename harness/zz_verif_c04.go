//go:build verif

package hdf5

import (
	"github.com/scigolib/hdf5/internal/vrt"
)

// C04 E-tier: two datasets /a and /b (and a group /g); k symbolic operations aimed at one object;
// after reopen every object's data and attributes equal the per-object model.
func verifIsolationScript(ver uint8, nops int) {
	fw, err := CreateForWrite("c04.h5", CreateTruncate, WithSuperblockVersion(ver))
	vrt.AssertNoErr(err, "create-ok")
	a, err := fw.CreateDataset("/a", Int32, []uint64{2})
	vrt.AssertNoErr(err, "create-a-ok")
	b, err := fw.CreateDataset("/b", Int32, []uint64{2})
	vrt.AssertNoErr(err, "create-b-ok")
	dataA := [2]int32{vrt.I32(), vrt.I32()}
	dataB := [2]int32{vrt.I32(), vrt.I32()}
	vrt.AssertNoErr(a.Write(dataA[:]), "write-a-ok")
	vrt.AssertNoErr(b.Write(dataB[:]), "write-b-ok")
	attrsA := map[string]int32{}
	attrsB := map[string]int32{}
	linked := false
	for k := 0; k < nops; k++ {
		switch vrt.Choice(5) {
		case 0: // attribute on /a
			v := vrt.I32()
			name := []string{"x", "y"}[vrt.Choice(2)]
			if a.WriteAttribute(name, v) == nil {
				attrsA[name] = v
			}
		case 1: // attribute on /b
			v := vrt.I32()
			name := []string{"x", "y"}[vrt.Choice(2)]
			if b.WriteAttribute(name, v) == nil {
				attrsB[name] = v
			}
		case 2: // rewrite /a
			na := [2]int32{vrt.I32(), vrt.I32()}
			if a.Write(na[:]) == nil {
				dataA = na
			}
		case 3: // hard link to /a
			if !linked && fw.CreateHardLink("/la", "/a") == nil {
				linked = true
			}
		case 4: // new sibling
			c, err := fw.CreateDataset("/c", Int32, []uint64{1})
			if err == nil {
				_ = c.Write([]int32{5})
			}
		}
	}
	vrt.AssertNoErr(fw.Close(), "close-ok")
	f, err := Open("c04.h5")
	vrt.AssertNoErr(err, "file-still-opens")
	da := verifFindDataset(f, "/a")
	db := verifFindDataset(f, "/b")
	vrt.Assert(da != nil, "a-present")
	vrt.Assert(db != nil, "b-present")
	check := func(d *Dataset, data [2]int32, attrs map[string]int32, who string) {
		v, err := d.Read()
		vrt.AssertNoErr(err, who+"-read-ok")
		vrt.Assert(len(v) == 2 && v[0] == float64(data[0]) && v[1] == float64(data[1]), who+"-data-as-model")
		list, err := d.ListAttributes()
		vrt.AssertNoErr(err, who+"-list-attrs-ok")
		vrt.Assert(len(list) == len(attrs), who+"-attr-count-as-model")
		for _, n := range []string{"x", "y"} {
			if want, ok := attrs[n]; ok {
				got, err := d.ReadAttribute(n)
				vrt.AssertNoErr(err, who+"-attr-read-ok")
				gi, isI := got.(int32)
				vrt.Assert(isI && gi == want, who+"-attr-value-as-model")
			}
		}
	}
	if da != nil {
		check(da, dataA, attrsA, "a")
	}
	if db != nil {
		check(db, dataB, attrsB, "b")
	}
	vrt.Covered("objects-compared")
	_ = f.Close()
}

func VerifH_C04_api_isolation_v2() { verifIsolationScript(2, 2) }
func VerifH_C04_api_isolation_v0() { verifIsolationScript(0, 1) }
func VerifH_C04_api_isolation3_thorough() { verifIsolationScript(2, 3) }

// a variable-length dataset whose single element needs its own, larger heap collection (lengths around and above the
// 4 KiB collection size), then a sibling created and written in the same session: both read back as written
func VerifH_C04_api_isolation_vlen_big() {
	vrt.LoopBound(40000)
	lens := []int{16, 4048, 4049, 4100, 6000, 9000}
	L := lens[vrt.Choice(len(lens))]
	big := make([]byte, L)
	for i := range big {
		big[i] = 'a' + byte(i%23)
	}
	big[0], big[L-1] = 'A'+vrt.U8()%26, 'A'+vrt.U8()%26
	fw, err := CreateForWrite("c04v.h5", CreateTruncate)
	vrt.AssertNoErr(err, "create-ok")
	x, err := fw.CreateDataset("/x", VLenString, []uint64{1})
	vrt.AssertNoErr(err, "create-x-ok")
	vrt.AssertNoErr(x.Write([]string{string(big)}), "write-x-ok")
	y, err := fw.CreateDataset("/y", Int32, []uint64{2})
	vrt.AssertNoErr(err, "create-y-ok")
	dataY := [2]int32{vrt.I32(), vrt.I32()}
	vrt.AssertNoErr(y.Write(dataY[:]), "write-y-ok")
	if vrt.Bool() {
		vrt.AssertNoErr(y.WriteAttribute("k", int32(5)), "attr-y-ok")
	}
	vrt.AssertNoErr(fw.Close(), "close-ok")
	f, err := Open("c04v.h5")
	vrt.AssertNoErr(err, "file-still-opens")
	if err != nil {
		return
	}
	dy := verifFindDataset(f, "/y")
	vrt.Assert(dy != nil, "b-present")
	if dy != nil {
		got, err := dy.Read()
		vrt.AssertNoErr(err, "b-read-ok")
		if err == nil {
			vrt.Assert(len(got) == 2 && got[0] == float64(dataY[0]) && got[1] == float64(dataY[1]), "b-data-as-model")
		}
	}
	dx := verifFindDataset(f, "/x")
	vrt.Assert(dx != nil, "a-present")
	if dx != nil {
		elems, err := verifVLenElements(dx, 1)
		vrt.AssertNoErr(err, "vlen-elements-resolve")
		if err == nil {
			vrt.Assert(string(elems[0]) == string(big), "a-data-as-model")
		}
	}
	vrt.Covered("isolation-compared")
	_ = f.Close()
}
