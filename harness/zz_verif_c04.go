//go:build verif

package hdf5

import (
	"github.com/scigolib/hdf5/internal/vrt"
)

// C04 E-tier: two datasets /a and /b (and a group /g); k symbolic operations aimed at one object;
// after reopen every object's data and attributes equal the per-object model.
func verifIsolationScript(ver uint8, nops int) {
	fw, err := CreateForWrite("c04.h5", CreateTruncate, WithSuperblockVersion(ver))
	vrt.AssertNoErr(err, "create-ok")
	a, err := fw.CreateDataset("/a", Int32, []uint64{2})
	vrt.AssertNoErr(err, "create-a-ok")
	b, err := fw.CreateDataset("/b", Int32, []uint64{2})
	vrt.AssertNoErr(err, "create-b-ok")
	dataA := [2]int32{vrt.I32(), vrt.I32()}
	dataB := [2]int32{vrt.I32(), vrt.I32()}
	vrt.AssertNoErr(a.Write(dataA[:]), "write-a-ok")
	vrt.AssertNoErr(b.Write(dataB[:]), "write-b-ok")
	attrsA := map[string]int32{}
	attrsB := map[string]int32{}
	linked := false
	for k := 0; k < nops; k++ {
		switch vrt.Choice(5) {
		case 0: // attribute on /a
			v := vrt.I32()
			name := []string{"x", "y"}[vrt.Choice(2)]
			if a.WriteAttribute(name, v) == nil {
				attrsA[name] = v
			}
		case 1: // attribute on /b
			v := vrt.I32()
			name := []string{"x", "y"}[vrt.Choice(2)]
			if b.WriteAttribute(name, v) == nil {
				attrsB[name] = v
			}
		case 2: // rewrite /a
			na := [2]int32{vrt.I32(), vrt.I32()}
			if a.Write(na[:]) == nil {
				dataA = na
			}
		case 3: // hard link to /a
			if !linked && fw.CreateHardLink("/la", "/a") == nil {
				linked = true
			}
		case 4: // new sibling
			c, err := fw.CreateDataset("/c", Int32, []uint64{1})
			if err == nil {
				_ = c.Write([]int32{5})
			}
		}
	}
	vrt.AssertNoErr(fw.Close(), "close-ok")
	f, err := Open("c04.h5")
	vrt.AssertNoErr(err, "file-still-opens")
	da := verifFindDataset(f, "/a")
	db := verifFindDataset(f, "/b")
	vrt.Assert(da != nil, "a-present")
	vrt.Assert(db != nil, "b-present")
	check := func(d *Dataset, data [2]int32, attrs map[string]int32, who string) {
		v, err := d.Read()
		vrt.AssertNoErr(err, who+"-read-ok")
		vrt.Assert(len(v) == 2 && v[0] == float64(data[0]) && v[1] == float64(data[1]), who+"-data-as-model")
		list, err := d.ListAttributes()
		vrt.AssertNoErr(err, who+"-list-attrs-ok")
		vrt.Assert(len(list) == len(attrs), who+"-attr-count-as-model")
		for _, n := range []string{"x", "y"} {
			if want, ok := attrs[n]; ok {
				got, err := d.ReadAttribute(n)
				vrt.AssertNoErr(err, who+"-attr-read-ok")
				gi, isI := got.(int32)
				vrt.Assert(isI && gi == want, who+"-attr-value-as-model")
			}
		}
	}
	if da != nil {
		check(da, dataA, attrsA, "a")
	}
	if db != nil {
		check(db, dataB, attrsB, "b")
	}
	vrt.Covered("objects-compared")
	_ = f.Close()
}

func VerifH_C04_api_isolation_v2() { verifIsolationScript(2, 2) }
func VerifH_C04_api_isolation_v0() { verifIsolationScript(0, 1) }
func VerifH_C04_api_isolation3_thorough() { verifIsolationScript(2, 3) }
