//go:build verif

package hdf5

import (
	"encoding/binary"
	"os"

	"github.com/scigolib/hdf5/internal/vrt"
)

// C05 E-tier: after a small symbolic history, the allocator's blocks are pairwise disjoint, every block lies
// inside the file, and the end-of-file address stored in the superblock covers every structure.
func verifWellFormedScript(ver uint8, nops int) {
	vrt.LoopBound(6000)
	fw, err := CreateForWrite("c05.h5", CreateTruncate, WithSuperblockVersion(ver))
	vrt.AssertNoErr(err, "create-ok")
	names := []string{"/a", "/b", "/c"}
	for k := 0; k < nops; k++ {
		switch vrt.Choice(3) {
		case 0:
			n := 1 + vrt.Choice(3)
			d, err := fw.CreateDataset(names[k], Int32, []uint64{uint64(n)})
			vrt.AssertNoErr(err, "create-dataset-ok")
			data := make([]int32, n)
			for i := range data {
				data[i] = vrt.I32()
			}
			vrt.AssertNoErr(d.Write(data), "write-ok")
			if vrt.Bool() {
				vrt.AssertNoErr(d.WriteAttribute("u", vrt.I32()), "attr-ok")
			}
		case 1:
			_, err := fw.CreateGroup(names[k])
			vrt.AssertNoErr(err, "group-ok")
		case 2:
			d, err := fw.CreateDataset(names[k], Float64, []uint64{3}, WithChunkDims([]uint64{1}))
			vrt.AssertNoErr(err, "create-chunked-ok")
			vrt.AssertNoErr(d.Write([]float64{1, 2, 3}), "write-chunked-ok")
		}
	}
	blocks := fw.writer.Allocator().Blocks()
	allocEnd := fw.writer.EndOfFile()
	vrt.AssertNoErr(fw.Close(), "close-ok")
	raw, err := os.ReadFile("c05.h5")
	vrt.AssertNoErr(err, "raw-read-ok")
	size := uint64(len(raw))
	// blocks: sorted by offset; disjoint; inside the file
	for i, b := range blocks {
		vrt.Assert(b.Size > 0 && b.Offset+b.Size > b.Offset, "block-nonempty-no-wrap")
		vrt.Assert(b.Offset+b.Size <= allocEnd, "block-below-allocator-end")
		if i > 0 {
			p := blocks[i-1]
			vrt.Assert(p.Offset+p.Size <= b.Offset, "blocks-disjoint")
		}
	}
	vrt.Assert(size <= allocEnd, "nothing-written-beyond-allocated-space")
	var eof uint64
	if ver == 0 {
		eof = binary.LittleEndian.Uint64(raw[40:48])
	} else {
		eof = binary.LittleEndian.Uint64(raw[28:36])
	}
	vrt.Assert(eof >= size, "superblock-eof-covers-file")
	vrt.Assert(eof == allocEnd, "superblock-eof-equals-allocated-end")
	vrt.Covered("wellformed-checked")
}

func VerifH_C05_api_wellformed_v2() { verifWellFormedScript(2, 2) }
func VerifH_C05_api_wellformed_v0() { verifWellFormedScript(0, 2) }
func VerifH_C05_api_wellformed_v3_thorough() { verifWellFormedScript(3, 3) }
