//go:build verif

package hdf5

import (
	"encoding/binary"
	"os"

	"github.com/scigolib/hdf5/internal/vrt"
)

// C05 E-tier: after a small symbolic history, the allocator's blocks are pairwise disjoint, every block lies
// inside the file, and the end-of-file address stored in the superblock covers every structure.
func verifWellFormedScript(ver uint8, nops int) {
	vrt.LoopBound(6000)
	fw, err := CreateForWrite("c05.h5", CreateTruncate, WithSuperblockVersion(ver))
	vrt.AssertNoErr(err, "create-ok")
	names := []string{"/a", "/b", "/c"}
	for k := 0; k < nops; k++ {
		switch vrt.Choice(3) {
		case 0:
			n := 1 + vrt.Choice(3)
			d, err := fw.CreateDataset(names[k], Int32, []uint64{uint64(n)})
			vrt.AssertNoErr(err, "create-dataset-ok")
			data := make([]int32, n)
			for i := range data {
				data[i] = vrt.I32()
			}
			vrt.AssertNoErr(d.Write(data), "write-ok")
			if vrt.Bool() {
				vrt.AssertNoErr(d.WriteAttribute("u", vrt.I32()), "attr-ok")
			}
		case 1:
			_, err := fw.CreateGroup(names[k])
			vrt.AssertNoErr(err, "group-ok")
		case 2:
			d, err := fw.CreateDataset(names[k], Float64, []uint64{3}, WithChunkDims([]uint64{1}))
			vrt.AssertNoErr(err, "create-chunked-ok")
			vrt.AssertNoErr(d.Write([]float64{1, 2, 3}), "write-chunked-ok")
		}
	}
	blocks := fw.writer.Allocator().Blocks()
	allocEnd := fw.writer.EndOfFile()
	vrt.AssertNoErr(fw.Close(), "close-ok")
	raw, err := os.ReadFile("c05.h5")
	vrt.AssertNoErr(err, "raw-read-ok")
	size := uint64(len(raw))
	// blocks: sorted by offset; disjoint; inside the file
	for i, b := range blocks {
		vrt.Assert(b.Size > 0 && b.Offset+b.Size > b.Offset, "block-nonempty-no-wrap")
		vrt.Assert(b.Offset+b.Size <= allocEnd, "block-below-allocator-end")
		if i > 0 {
			p := blocks[i-1]
			vrt.Assert(p.Offset+p.Size <= b.Offset, "blocks-disjoint")
		}
	}
	vrt.Assert(size <= allocEnd, "nothing-written-beyond-allocated-space")
	var eof uint64
	if ver == 0 {
		eof = binary.LittleEndian.Uint64(raw[40:48])
	} else {
		eof = binary.LittleEndian.Uint64(raw[28:36])
	}
	vrt.Assert(eof >= size, "superblock-eof-covers-file")
	vrt.Assert(eof == allocEnd, "superblock-eof-equals-allocated-end")
	vrt.Covered("wellformed-checked")
}

func VerifH_C05_api_wellformed_v2() { verifWellFormedScript(2, 2) }
func VerifH_C05_api_wellformed_v0() { verifWellFormedScript(0, 2) }
func VerifH_C05_api_wellformed_v3_thorough() { verifWellFormedScript(3, 3) }

// header capacity boundary: an existing string attribute is replaced by one of forked length so that the object
// header's message block passes through its 255-byte limit: either the call fails and nothing changes, or the
// reopened file shows the new value; the file always reopens and the dataset keeps its data.
func VerifH_C05_api_header_capacity() {
	vrt.LoopBound(3000)
	fw, err := CreateForWrite("c05h.h5", CreateTruncate)
	vrt.AssertNoErr(err, "create-ok")
	ds, err := fw.CreateDataset("/d", Int32, []uint64{1})
	vrt.AssertNoErr(err, "create-dataset-ok")
	x := vrt.I32()
	vrt.AssertNoErr(ds.Write([]int32{x}), "write-ok")
	vrt.AssertNoErr(ds.WriteAttribute("s", "x"), "first-attr-ok")
	lo, span := 120, 80
	if vrt.Thorough() {
		lo, span = 60, 180
	}
	L := lo + vrt.Choice(span)
	b := make([]byte, L)
	for i := range b {
		b[i] = 'a' + byte(i%26)
	}
	b[0] = 'A' + vrt.U8()%26 // one symbolic character
	want := string(b)
	werr := ds.WriteAttribute("s", want)
	vrt.AssertNoErr(fw.Close(), "close-ok")
	f, err := Open("c05h.h5")
	vrt.AssertNoErr(err, "file-still-opens")
	d := verifFindDataset(f, "/d")
	vrt.Assert(d != nil, "dataset-found-at-path")
	v, err := d.Read()
	vrt.AssertNoErr(err, "data-read-ok")
	vrt.Assert(len(v) == 1 && v[0] == float64(x), "data-unchanged")
	got, err := d.ReadAttribute("s")
	vrt.AssertNoErr(err, "attr-read-ok")
	gs, ok := got.(string)
	vrt.Assert(ok, "attr-type-string")
	if werr == nil {
		vrt.Assert(gs == want, "replaced-attribute-value")
	} else {
		vrt.Assert(gs == "x", "failed-replace-keeps-old-value")
	}
	vrt.Covered("capacity-checked")
	_ = f.Close()
}

// a second session that makes an object header grow must not overlap the structure that follows it
func VerifH_C05_api_session_growth() {
	vrt.LoopBound(6000)
	fw, err := CreateForWrite("c05s.h5", CreateTruncate)
	vrt.AssertNoErr(err, "create-ok")
	a, err := fw.CreateDataset("/a", Int32, []uint64{2})
	vrt.AssertNoErr(err, "create-a-ok")
	vrt.AssertNoErr(a.Write([]int32{1, 2}), "write-a-ok")
	vrt.AssertNoErr(a.WriteAttribute("s", "x"), "attr-ok")
	b, err := fw.CreateDataset("/b", Int32, []uint64{2})
	vrt.AssertNoErr(err, "create-b-ok")
	y0, y1 := vrt.I32(), vrt.I32()
	vrt.AssertNoErr(b.Write([]int32{y0, y1}), "write-b-ok")
	vrt.AssertNoErr(fw.Close(), "close-ok")
	fw2, err := OpenForWrite("c05s.h5", OpenReadWrite)
	vrt.AssertNoErr(err, "open-for-write-ok")
	da, err := fw2.OpenDataset("/a")
	vrt.AssertNoErr(err, "open-dataset-ok")
	// grow /a's header by 0..12 bytes (string attribute replaced by a longer one) or by a whole new attribute
	var werr error
	if vrt.Bool() {
		n := 1 + vrt.Choice(13)
		s := make([]byte, n)
		for i := range s {
			s[i] = 'q'
		}
		werr = da.WriteAttribute("s", string(s))
	} else {
		werr = da.WriteAttribute("t", vrt.I32())
	}
	_ = werr
	vrt.AssertNoErr(fw2.Close(), "session-close-ok")
	f, err := Open("c05s.h5")
	vrt.AssertNoErr(err, "file-still-opens")
	db := verifFindDataset(f, "/b")
	vrt.Assert(db != nil, "b-present")
	if db != nil {
		v, err := db.Read()
		vrt.AssertNoErr(err, "b-read-ok")
		vrt.Assert(len(v) == 2 && v[0] == float64(y0) && v[1] == float64(y1), "neighbour-not-overwritten")
	}
	daR := verifFindDataset(f, "/a")
	vrt.Assert(daR != nil, "a-present")
	if daR != nil {
		v, err := daR.Read()
		vrt.AssertNoErr(err, "a-read-ok")
		vrt.Assert(len(v) == 2 && v[0] == 1 && v[1] == 2, "a-data-unchanged")
	}
	vrt.Covered("session-growth-checked")
	_ = f.Close()
}

// every global-heap object lies inside its collection: elements around the collection size (see C12) checked at the
// structure level — collection size field covers header + objects, object sizes consistent with the bytes stored
func VerifH_C05_api_vlen_collection_bounds() {
	vrt.LoopBound(20000)
	lens := []int{4048, 4064, 4065, 4072, 4080, 4081}
	L := lens[vrt.Choice(len(lens))]
	big := make([]byte, L)
	for i := range big {
		big[i] = 'a' + byte(i%23)
	}
	big[0] = 'A' + vrt.U8()%26
	data := []string{string(big), []string{"", "tail"}[vrt.Choice(2)]}
	f, d := verifWriteReopen("c05v.h5", 2, VLenString, []uint64{2}, data)
	raw, err := os.ReadFile("c05v.h5")
	vrt.AssertNoErr(err, "raw-read-ok")
	elems, err := verifVLenElements(d, 2)
	vrt.AssertNoErr(err, "vlen-elements-resolve")
	if err == nil {
		for i := range data {
			vrt.Assert(string(elems[i]) == data[i], "vlen-element-bytes-exact")
		}
	}
	// walk the file for collections: signature "GCOL", version 1, size at +8; everything must lie inside the file
	for off := 0; off+16 <= len(raw); off += 8 {
		if raw[off] == 'G' && raw[off+1] == 'C' && raw[off+2] == 'O' && raw[off+3] == 'L' && raw[off+4] == 1 {
			size := binary.LittleEndian.Uint64(raw[off+8 : off+16])
			vrt.Assert(uint64(off)+size <= uint64(len(raw)), "collection-inside-file")
			// objects: id(2) refs(2) reserved(4) size(8) data (8-aligned)
			p := uint64(off) + 16
			end := uint64(off) + size
			for p+16 <= end {
				id := binary.LittleEndian.Uint16(raw[p : p+2])
				osz := binary.LittleEndian.Uint64(raw[p+8 : p+16])
				if id == 0 {
					break // free-space marker
				}
				vrt.Assert(p+16+osz <= end, "object-inside-collection")
				p += 16 + (osz+7)/8*8
			}
		}
	}
	vrt.Covered("collections-walked")
	_ = f.Close()
}
