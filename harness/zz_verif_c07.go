//go:build verif

package hdf5

import (
	"encoding/binary"
	"os"

	"github.com/scigolib/hdf5/internal/core"
	"github.com/scigolib/hdf5/internal/vrt"
)

// C07 E tier: a valid library-written file with one field replaced by arbitrary bytes (offset forked over the dense
// attribute structures, 2 symbolic bytes): Open / Walk / Read / Attributes return values or errors, never panic,
// never allocate from an unchecked size.
func verifCorruptField(region int) { verifCorruptFieldAt(region, 0, 1000) }

func verifCorruptFieldAt(region, lo, hi int) {
	vrt.LoopBound(200000)
	vrt.AllocBudget(1 << 30)
	vrt.SampleSizes()
	hdr, heap, btree := verifDenseFile("c07f.h5")
	raw, err := os.ReadFile("c07f.h5")
	vrt.AssertNoErr(err, "raw-read-ok")
	var base, span int
	switch region {
	case 0:
		base, span = int(heap), 144 // fractal heap header
	case 1:
		base, span = int(btree), 38 // name index header
	default:
		base, span = int(hdr), 40 // the dataset's object header (prefix and first messages)
	}
	if hi > span {
		hi = span
	}
	off := base + lo + 2*vrt.Choice((hi-lo)/2)
	vrt.Assume(off+2 <= len(raw))
	nb := vrt.Bytes(2)
	raw[off], raw[off+1] = nb[0], nb[1]
	vrt.AssertNoErr(os.WriteFile("c07f.h5", raw, 0o644), "rewrite-ok")
	_, _ = verifDumpFile("c07f.h5")
	vrt.Covered("corrupted-file-dumped")
}

// the datatype message of the dataset (located through the library's own header reader): its class/flags word and
// its size field replaced two bytes at a time by arbitrary bytes; the walk includes a one-element partial read
func VerifH_C07_api_corrupt_datatype_message() {
	vrt.LoopBound(200000)
	vrt.AllocBudget(1 << 28)
	vrt.SampleSizes()
	hdr, _, _ := verifDenseFile("c07t.h5")
	raw, err := os.ReadFile("c07t.h5")
	vrt.AssertNoErr(err, "raw-read-ok")
	f, err := Open("c07t.h5")
	vrt.AssertNoErr(err, "intact-open-ok")
	oh, err := core.ReadObjectHeader(f.osFile, hdr, f.sb)
	vrt.AssertNoErr(err, "header-read-ok")
	var dt []byte
	for _, m := range oh.Messages {
		if m.Type == core.MsgDatatype {
			dt = m.Data
		}
	}
	_ = f.Close()
	vrt.Assert(len(dt) >= 8, "datatype-message-found")
	at := -1
	for i := int(hdr); i+len(dt) <= len(raw) && i < int(hdr)+400; i++ {
		same := true
		for k := range dt {
			if raw[i+k] != dt[k] {
				same = false
				break
			}
		}
		if same {
			at = i
			break
		}
	}
	vrt.Assert(at > 0, "datatype-message-located")
	off := at + 2*vrt.Choice(4) // bytes 0..7: class+version, flags, size
	nb := vrt.Bytes(2)
	raw[off], raw[off+1] = nb[0], nb[1]
	vrt.AssertNoErr(os.WriteFile("c07t.h5", raw, 0o644), "rewrite-ok")
	_, _ = verifDumpFile("c07t.h5")
	vrt.Covered("corrupted-file-dumped")
}

func VerifH_C07_api_corrupt_heap_header()      { verifCorruptField(0) }
func VerifH_C07_api_corrupt_index_header()     { verifCorruptField(1) }
func VerifH_C07_api_corrupt_object_header_00() { verifCorruptFieldAt(2, 0, 4) }
func VerifH_C07_api_corrupt_object_header_04() { verifCorruptFieldAt(2, 4, 8) }
func VerifH_C07_api_corrupt_object_header_08() { verifCorruptFieldAt(2, 8, 12) }
func VerifH_C07_api_corrupt_object_header_12() { verifCorruptFieldAt(2, 12, 16) }
func VerifH_C07_api_corrupt_object_header_16() { verifCorruptFieldAt(2, 16, 20) }
func VerifH_C07_api_corrupt_object_header_20() { verifCorruptFieldAt(2, 20, 24) }
func VerifH_C07_api_corrupt_object_header_24() { verifCorruptFieldAt(2, 24, 28) }
func VerifH_C07_api_corrupt_object_header_28() { verifCorruptFieldAt(2, 28, 32) }
func VerifH_C07_api_corrupt_object_header_32() { verifCorruptFieldAt(2, 32, 36) }
func VerifH_C07_api_corrupt_object_header_36() { verifCorruptFieldAt(2, 36, 40) }

// a ladder of nested groups in which every group holds its child twice (the child and a hard link to it): opening the
// file must stay proportional to the file size (step budget), not to the number of paths
func VerifH_C07_api_shared_group_ladder() {
	vrt.LoopBound(200000)
	fw, err := CreateForWrite("c07l.h5", CreateTruncate)
	vrt.AssertNoErr(err, "create-ok")
	depth := 26
	path := ""
	for i := 0; i < depth; i++ {
		parent := path
		path = parent + "/g"
		_, err := fw.CreateGroup(path)
		vrt.AssertNoErr(err, "group-ok")
		vrt.AssertNoErr(fw.CreateHardLink(parent+"/h", path), "hardlink-ok")
	}
	d, err := fw.CreateDataset(path+"/d", Int32, []uint64{1})
	vrt.AssertNoErr(err, "create-dataset-ok")
	vrt.AssertNoErr(d.Write([]int32{vrt.I32()}), "write-ok")
	vrt.AssertNoErr(fw.Close(), "close-ok")
	vrt.StepBudget(2500000)
	f, err := Open("c07l.h5")
	if err == nil {
		n := 0
		f.Walk(func(string, Object) { n++ }) // walking is a read operation too: same budget
		vrt.Assert(n >= depth, "ladder-walk-reaches-every-group")
		_ = f.Close()
	}
	vrt.Covered("ladder-opened")
}

// thorough tier: the two-byte window sweeps whole library-written files (every even offset), in slices that run in
// parallel. Files: dense attributes (v2 superblock), chunked + groups (v0 superblock, symbol tables), vlen strings.
func verifSweepFile(kind int) string {
	switch kind {
	case 3, 4, 5:
		// reference-library files (version 1 headers with their own layout, link messages, symbol tables)
		rel := []string{"testdata/with_groups.h5", "testdata/v0.h5", "testdata/with_attributes.h5"}[kind-3]
		vrt.AssertNoErr(os.WriteFile("c07s.h5", vrt.Corpus(rel), 0o644), "write-ok")
	case 0:
		verifDenseFile("c07s.h5")
	case 1:
		fw, err := CreateForWrite("c07s.h5", CreateTruncate, WithSuperblockVersion(0))
		vrt.AssertNoErr(err, "create-ok")
		_, err = fw.CreateGroup("/g")
		vrt.AssertNoErr(err, "group-ok")
		c, err := fw.CreateDataset("/g/c", Int32, []uint64{4}, WithChunkDims([]uint64{2}))
		vrt.AssertNoErr(err, "create-dataset-ok")
		vrt.AssertNoErr(c.WriteAttribute("k", int32(5)), "attr-ok")
		vrt.AssertNoErr(c.Write([]int32{1, 2, 3, 4}), "write-ok")
		vrt.AssertNoErr(fw.CreateSoftLink("/s", "/g/c"), "softlink-ok")
		vrt.AssertNoErr(fw.Close(), "close-ok")
	default:
		fw, err := CreateForWrite("c07s.h5", CreateTruncate)
		vrt.AssertNoErr(err, "create-ok")
		d, err := fw.CreateDataset("/v", VLenString, []uint64{2})
		vrt.AssertNoErr(err, "create-dataset-ok")
		vrt.AssertNoErr(d.Write([]string{"ab", "cde"}), "write-ok")
		vrt.AssertNoErr(fw.Close(), "close-ok")
	}
	return "c07s.h5"
}

// the windows are the even offsets inside the 8-byte words of the file that are not all zero;
// slice k covers windows 32k .. 32k+31 of that list
func verifSweep(kind, slice int) { verifSweepRange(kind, slice*32, slice*32+32) }

func verifSweepRange(kind, lo, hi int) { verifSweepRangeN(kind, lo, hi, 2) }

// nsym = 1: only the first byte of the window is replaced (used where a two-byte replacement of an object address
// makes the engine read the file at 65536 candidate offsets and runs out of its time budget)
func verifSweepRangeN(kind, lo, hi, nsym int) {
	vrt.LoopBound(400000)
	vrt.AllocBudget(1 << 30)
	vrt.SampleSizes()
	name := verifSweepFile(kind)
	raw, err := os.ReadFile(name)
	vrt.AssertNoErr(err, "raw-read-ok")
	var offs []int
	for w := 0; w+8 <= len(raw); w += 8 {
		if binary.LittleEndian.Uint64(raw[w:w+8]) != 0 {
			offs = append(offs, w, w+2, w+4, w+6)
		}
	}
	if hi > len(offs) {
		hi = len(offs)
	}
	if lo >= hi {
		vrt.Covered("corrupted-file-dumped")
		return
	}
	off := offs[lo+vrt.Choice(hi-lo)]
	nb := vrt.Bytes(nsym)
	raw[off] = nb[0]
	if nsym > 1 {
		raw[off+1] = nb[1]
	}
	vrt.AssertNoErr(os.WriteFile(name, raw, 0o644), "rewrite-ok")
	_, _ = verifDumpFile(name)
	if kind == 2 {
		if f, err := Open(name); err == nil {
			f.Walk(func(p string, o Object) {
				if d, ok := o.(*Dataset); ok {
					_, _ = d.ReadStrings()
				}
			})
			_ = f.Close()
		}
	}
	vrt.Covered("corrupted-file-dumped")
}

func VerifH_C07_api_sweep_dense_00_thorough()     { verifSweep(0, 0) }
func VerifH_C07_api_sweep_dense_01_thorough()     { verifSweep(0, 1) }
func VerifH_C07_api_sweep_dense_02_thorough()     { verifSweep(0, 2) }
func VerifH_C07_api_sweep_dense_03_thorough()     { verifSweep(0, 3) }
func VerifH_C07_api_sweep_dense_04_thorough()     { verifSweep(0, 4) }
func VerifH_C07_api_sweep_dense_05_thorough()     { verifSweep(0, 5) }
func VerifH_C07_api_sweep_dense_06_thorough()     { verifSweep(0, 6) }
func VerifH_C07_api_sweep_dense_07_thorough()     { verifSweep(0, 7) }
func VerifH_C07_api_sweep_dense_08_thorough()     { verifSweep(0, 8) }
func VerifH_C07_api_sweep_dense_09_thorough()     { verifSweep(0, 9) }
func VerifH_C07_api_sweep_dense_10_thorough()     { verifSweep(0, 10) }
func VerifH_C07_api_sweep_dense_11_thorough()     { verifSweep(0, 11) }
func VerifH_C07_api_sweep_dense_12_thorough()     { verifSweep(0, 12) }
func VerifH_C07_api_sweep_dense_13_thorough()     { verifSweep(0, 13) }
func VerifH_C07_api_sweep_dense_14_thorough()     { verifSweep(0, 14) }
func VerifH_C07_api_sweep_dense_15_thorough()     { verifSweep(0, 15) }
func VerifH_C07_api_sweep_dense_16_thorough()     { verifSweep(0, 16) }
func VerifH_C07_api_sweep_dense_17_thorough()     { verifSweep(0, 17) }
func VerifH_C07_api_sweep_dense_18_thorough()     { verifSweep(0, 18) }
func VerifH_C07_api_sweep_dense_19_thorough()     { verifSweep(0, 19) }
func VerifH_C07_api_sweep_dense_20_thorough()     { verifSweep(0, 20) }
func VerifH_C07_api_sweep_dense_21_thorough()     { verifSweep(0, 21) }
func VerifH_C07_api_sweep_v0chunked_00_thorough() { verifSweep(1, 0) }
func VerifH_C07_api_sweep_v0chunked_01_thorough() { verifSweep(1, 1) }
func VerifH_C07_api_sweep_v0chunked_02_thorough() { verifSweep(1, 2) }
func VerifH_C07_api_sweep_v0chunked_03_thorough() { verifSweep(1, 3) }
func VerifH_C07_api_sweep_v0chunked_04_thorough() { verifSweep(1, 4) }
func VerifH_C07_api_sweep_v0chunked_05_thorough() { verifSweep(1, 5) }
func VerifH_C07_api_sweep_v0chunked_06_thorough() { verifSweep(1, 6) }
func VerifH_C07_api_sweep_v0chunked_07_thorough() { verifSweep(1, 7) }
func VerifH_C07_api_sweep_v0chunked_08_thorough() { verifSweep(1, 8) }
func VerifH_C07_api_sweep_v0chunked_09_thorough() { verifSweep(1, 9) }
func VerifH_C07_api_sweep_v0chunked_10_thorough() { verifSweep(1, 10) }
func VerifH_C07_api_sweep_v0chunked_11_thorough() { verifSweep(1, 11) }
func VerifH_C07_api_sweep_v0chunked_12_thorough() { verifSweep(1, 12) }
func VerifH_C07_api_sweep_v0chunked_13_thorough() { verifSweep(1, 13) }
func VerifH_C07_api_sweep_vlen_00_thorough()      { verifSweep(2, 0) }
func VerifH_C07_api_sweep_vlen_01_thorough()      { verifSweep(2, 1) }
func VerifH_C07_api_sweep_vlen_02_thorough()      { verifSweep(2, 2) }
func VerifH_C07_api_sweep_vlen_03_thorough()      { verifSweep(2, 3) }
func VerifH_C07_api_sweep_vlen_04_thorough()      { verifSweep(2, 4) }
func VerifH_C07_api_sweep_vlen_05_thorough()      { verifSweep(2, 5) }
func VerifH_C07_api_sweep_vlen_06_thorough()      { verifSweep(2, 6) }
func VerifH_C07_api_sweep_vlen_07_thorough()      { verifSweep(2, 7) }
func VerifH_C07_api_sweep_vlen_08_thorough()      { verifSweep(2, 8) }
func VerifH_C07_api_sweep_vlen_09_thorough()      { verifSweep(2, 9) }

// hard links stored as link messages (the compact form of "new style" groups) in a library-written file: one or two
// link messages are added to the object header of /, /g or /g/h, each leading to one of {/, /g, /g/h, /g/d}. Links
// back to an ancestor or to the group itself are legal HDF5 (hard link cycles); Open and Walk must return within a
// work budget and without exhausting the stack.
func VerifH_C07_api_link_message_cycle() {
	vrt.LoopBound(200000)
	fw, err := CreateForWrite("c07k.h5", CreateTruncate)
	vrt.AssertNoErr(err, "create-ok")
	_, err = fw.CreateGroup("/g")
	vrt.AssertNoErr(err, "group-ok")
	_, err = fw.CreateGroup("/g/h")
	vrt.AssertNoErr(err, "group-ok")
	d, err := fw.CreateDataset("/g/d", Int32, []uint64{1})
	vrt.AssertNoErr(err, "create-dataset-ok")
	vrt.AssertNoErr(d.Write([]int32{7}), "write-ok")
	vrt.AssertNoErr(fw.Close(), "close-ok")

	f, err := Open("c07k.h5")
	vrt.AssertNoErr(err, "open-ok")
	addrs := map[string]uint64{}
	f.Walk(func(p string, o Object) {
		switch x := o.(type) {
		case *Group:
			addrs[p] = x.address
		case *Dataset:
			addrs[p] = x.address
		}
	})
	sb := f.sb
	vrt.AssertNoErr(f.Close(), "close-ok")
	objs := []uint64{sb.RootGroup, addrs["/g/"], addrs["/g/h/"], addrs["/g/d"]}
	for _, a := range objs {
		vrt.Assert(a != 0, "object-addresses-known")
	}

	holder := objs[vrt.Choice(3)]
	nlinks := 1 + vrt.Choice(2)
	osf, err := os.OpenFile("c07k.h5", os.O_RDWR, 0)
	vrt.AssertNoErr(err, "raw-open-ok")
	oh, err := core.ReadObjectHeader(osf, holder, sb)
	vrt.AssertNoErr(err, "holder-header-ok")
	for i := 0; i < nlinks; i++ {
		target := objs[vrt.Choice(4)]
		msg := []byte{1, 0, 2, 'l', byte('0' + i), 0, 0, 0, 0, 0, 0, 0, 0}
		binary.LittleEndian.PutUint64(msg[5:], target)
		if core.AddMessageToObjectHeader(oh, core.MsgLinkMessage, msg) != nil {
			return // no room in this header
		}
	}
	vrt.AssertNoErr(core.WriteObjectHeader(osf, holder, oh, sb), "holder-rewrite-ok")
	vrt.AssertNoErr(osf.Close(), "raw-close-ok")

	vrt.StepBudget(1500000)
	f, err = Open("c07k.h5")
	if err == nil {
		n := 0
		f.Walk(func(p string, o Object) { n++ })
		vrt.Assert(n >= 1, "walk-visits-root")
		_ = f.Close()
	}
	vrt.Covered("link-cycle-opened")
}

// the same ladder with hard links stored as link messages: groups g00..g(N-1) are siblings under the root; the object
// header of g(i) receives two link messages, both leading to g(i+1). The file grows linearly with N, the number of
// paths doubles with every step; Open must stay within a work budget proportional to the file.
func VerifH_C07_api_link_message_ladder() {
	vrt.LoopBound(200000)
	const depth = 16
	fw, err := CreateForWrite("c07m.h5", CreateTruncate)
	vrt.AssertNoErr(err, "create-ok")
	names := make([]string, depth)
	for i := range names {
		names[i] = "/g" + string(rune('a'+i))
		_, err = fw.CreateGroup(names[i])
		vrt.AssertNoErr(err, "group-ok")
	}
	vrt.AssertNoErr(fw.Close(), "close-ok")
	f, err := Open("c07m.h5")
	vrt.AssertNoErr(err, "open-ok")
	addrs := map[string]uint64{}
	f.Walk(func(p string, o Object) {
		if g, ok := o.(*Group); ok {
			addrs[p] = g.address
		}
	})
	sb := f.sb
	vrt.AssertNoErr(f.Close(), "close-ok")
	osf, err := os.OpenFile("c07m.h5", os.O_RDWR, 0)
	vrt.AssertNoErr(err, "raw-open-ok")
	last := vrt.U8() // name of the second link: any byte other than 'a'
	vrt.Assume(last != 'a' && last != 0 && last != '/')
	for i := 0; i+1 < depth; i++ {
		holder, target := addrs[names[i]+"/"], addrs[names[i+1]+"/"]
		vrt.Assert(holder != 0 && target != 0, "object-addresses-known")
		oh, err := core.ReadObjectHeader(osf, holder, sb)
		vrt.AssertNoErr(err, "holder-header-ok")
		for _, c := range []byte{'a', last} {
			msg := []byte{1, 0, 1, c, 0, 0, 0, 0, 0, 0, 0, 0}
			binary.LittleEndian.PutUint64(msg[4:], target)
			vrt.AssertNoErr(core.AddMessageToObjectHeader(oh, core.MsgLinkMessage, msg), "link-message-fits")
		}
		vrt.AssertNoErr(core.WriteObjectHeader(osf, holder, oh, sb), "holder-rewrite-ok")
	}
	vrt.AssertNoErr(osf.Close(), "raw-close-ok")
	vrt.Covered("link-ladder-built")
	vrt.StepBudget(3000000) // a pass that loads each of the 17 groups once stays below a third of this
	f, err = Open("c07m.h5")
	if err == nil {
		n := 0
		f.Walk(func(string, Object) { n++ })
		vrt.Assert(n >= depth, "ladder-walk-reaches-every-group")
		_ = f.Close()
	}
	vrt.Covered("link-ladder-opened")
}

// the same sweep over reference-library files: with_groups.h5 (11 slices), v0.h5 (6), with_attributes.h5 (25)
func VerifH_C07_api_sweep_refgroups_00_thorough() { verifSweep(3, 0) }
func VerifH_C07_api_sweep_refgroups_01_thorough() { verifSweep(3, 1) }
func VerifH_C07_api_sweep_refgroups_02_thorough() { verifSweep(3, 2) }
func VerifH_C07_api_sweep_refgroups_03_thorough() { verifSweep(3, 3) }
func VerifH_C07_api_sweep_refgroups_04_thorough() { verifSweep(3, 4) }
func VerifH_C07_api_sweep_refgroups_05_thorough() { verifSweep(3, 5) }
func VerifH_C07_api_sweep_refgroups_06_thorough() { verifSweep(3, 6) }
func VerifH_C07_api_sweep_refgroups_07_thorough() { verifSweep(3, 7) }
func VerifH_C07_api_sweep_refgroups_08_thorough() { verifSweep(3, 8) }
func VerifH_C07_api_sweep_refgroups_09_thorough() { verifSweep(3, 9) }
func VerifH_C07_api_sweep_refgroups_10_thorough() { verifSweep(3, 10) }
func VerifH_C07_api_sweep_refv0_00_thorough()     { verifSweep(4, 0) }
func VerifH_C07_api_sweep_refv0_01_thorough()     { verifSweep(4, 1) }
func VerifH_C07_api_sweep_refv0_02_thorough()     { verifSweep(4, 2) }
func VerifH_C07_api_sweep_refv0_03_thorough()     { verifSweep(4, 3) }
func VerifH_C07_api_sweep_refv0_04_thorough()     { verifSweep(4, 4) }
func VerifH_C07_api_sweep_refv0_05_thorough()     { verifSweep(4, 5) }
func VerifH_C07_api_sweep_refattrs_00_thorough()  { verifSweep(5, 0) }
func VerifH_C07_api_sweep_refattrs_01_thorough()  { verifSweep(5, 1) }
func VerifH_C07_api_sweep_refattrs_02_thorough()  { verifSweep(5, 2) }
func VerifH_C07_api_sweep_refattrs_03_thorough()  { verifSweep(5, 3) }
func VerifH_C07_api_sweep_refattrs_04_thorough()  { verifSweep(5, 4) }
func VerifH_C07_api_sweep_refattrs_05_thorough()  { verifSweep(5, 5) }
func VerifH_C07_api_sweep_refattrs_06_thorough()  { verifSweep(5, 6) }
func VerifH_C07_api_sweep_refattrs_07_thorough()  { verifSweep(5, 7) }
func VerifH_C07_api_sweep_refattrs_08_thorough()  { verifSweep(5, 8) }
func VerifH_C07_api_sweep_refattrs_09_thorough()  { verifSweep(5, 9) }
func VerifH_C07_api_sweep_refattrs_10_thorough()  { verifSweep(5, 10) }
func VerifH_C07_api_sweep_refattrs_11_thorough()  { verifSweep(5, 11) }
func VerifH_C07_api_sweep_refattrs_12a_thorough() { verifSweepRange(5, 384, 392) }
func VerifH_C07_api_sweep_refattrs_12b_thorough() { verifSweepRange(5, 392, 400) }

// windows 400..415 of with_attributes.h5 (the object addresses of two symbol table entries at 1408..1423 and
// 1448..1463) are not swept: each path took about 8 s of engine time outside the solver and the slice ran out of the
// thorough tier's time budget (also with a one-byte window)
func VerifH_C07_api_sweep_refattrs_13_thorough() { verifSweep(5, 13) }
func VerifH_C07_api_sweep_refattrs_14_thorough() { verifSweep(5, 14) }
func VerifH_C07_api_sweep_refattrs_15_thorough() { verifSweep(5, 15) }
func VerifH_C07_api_sweep_refattrs_16_thorough() { verifSweep(5, 16) }
func VerifH_C07_api_sweep_refattrs_17_thorough() { verifSweep(5, 17) }
func VerifH_C07_api_sweep_refattrs_18_thorough() { verifSweep(5, 18) }
func VerifH_C07_api_sweep_refattrs_19_thorough() { verifSweep(5, 19) }
func VerifH_C07_api_sweep_refattrs_20_thorough() { verifSweep(5, 20) }
func VerifH_C07_api_sweep_refattrs_21_thorough() { verifSweep(5, 21) }
func VerifH_C07_api_sweep_refattrs_22_thorough() { verifSweep(5, 22) }
func VerifH_C07_api_sweep_refattrs_23_thorough() { verifSweep(5, 23) }
func VerifH_C07_api_sweep_refattrs_24_thorough() { verifSweep(5, 24) }
