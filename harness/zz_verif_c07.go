//go:build verif

package hdf5

import (
	"os"

	"github.com/scigolib/hdf5/internal/vrt"
)

// C07 E tier: a valid library-written file with one field replaced by arbitrary bytes (offset forked over the dense
// attribute structures, 2 symbolic bytes): Open / Walk / Read / Attributes return values or errors, never panic,
// never allocate from an unchecked size.
func verifCorruptField(region int) { verifCorruptFieldAt(region, 0, 1000) }

func verifCorruptFieldAt(region, lo, hi int) {
	vrt.LoopBound(200000)
	vrt.AllocBudget(1 << 30)
	vrt.SampleSizes()
	hdr, heap, btree := verifDenseFile("c07f.h5")
	raw, err := os.ReadFile("c07f.h5")
	vrt.AssertNoErr(err, "raw-read-ok")
	var base, span int
	switch region {
	case 0:
		base, span = int(heap), 144 // fractal heap header
	case 1:
		base, span = int(btree), 38 // name index header
	default:
		base, span = int(hdr), 40 // the dataset's object header (prefix and first messages)
	}
	if hi > span {
		hi = span
	}
	off := base + lo + 2*vrt.Choice((hi-lo)/2)
	vrt.Assume(off+2 <= len(raw))
	nb := vrt.Bytes(2)
	raw[off], raw[off+1] = nb[0], nb[1]
	vrt.AssertNoErr(os.WriteFile("c07f.h5", raw, 0o644), "rewrite-ok")
	_, _ = verifDumpFile("c07f.h5")
	vrt.Covered("corrupted-file-dumped")
}

func VerifH_C07_api_corrupt_heap_header() { verifCorruptField(0) }
func VerifH_C07_api_corrupt_index_header() { verifCorruptField(1) }
func VerifH_C07_api_corrupt_object_header_00() { verifCorruptFieldAt(2, 0, 4) }
func VerifH_C07_api_corrupt_object_header_04() { verifCorruptFieldAt(2, 4, 8) }
func VerifH_C07_api_corrupt_object_header_08() { verifCorruptFieldAt(2, 8, 12) }
func VerifH_C07_api_corrupt_object_header_12() { verifCorruptFieldAt(2, 12, 16) }
func VerifH_C07_api_corrupt_object_header_16() { verifCorruptFieldAt(2, 16, 20) }
func VerifH_C07_api_corrupt_object_header_20() { verifCorruptFieldAt(2, 20, 24) }
func VerifH_C07_api_corrupt_object_header_24() { verifCorruptFieldAt(2, 24, 28) }
func VerifH_C07_api_corrupt_object_header_28() { verifCorruptFieldAt(2, 28, 32) }
func VerifH_C07_api_corrupt_object_header_32() { verifCorruptFieldAt(2, 32, 36) }
func VerifH_C07_api_corrupt_object_header_36() { verifCorruptFieldAt(2, 36, 40) }

// a ladder of nested groups in which every group holds its child twice (the child and a hard link to it): opening the
// file must stay proportional to the file size (step budget), not to the number of paths
func VerifH_C07_api_shared_group_ladder() {
	vrt.LoopBound(200000)
	fw, err := CreateForWrite("c07l.h5", CreateTruncate)
	vrt.AssertNoErr(err, "create-ok")
	depth := 26
	path := ""
	for i := 0; i < depth; i++ {
		parent := path
		path = parent + "/g"
		_, err := fw.CreateGroup(path)
		vrt.AssertNoErr(err, "group-ok")
		vrt.AssertNoErr(fw.CreateHardLink(parent+"/h", path), "hardlink-ok")
	}
	d, err := fw.CreateDataset(path+"/d", Int32, []uint64{1})
	vrt.AssertNoErr(err, "create-dataset-ok")
	vrt.AssertNoErr(d.Write([]int32{vrt.I32()}), "write-ok")
	vrt.AssertNoErr(fw.Close(), "close-ok")
	vrt.StepBudget(2500000)
	f, err := Open("c07l.h5")
	if err == nil {
		_ = f.Close()
	}
	vrt.Covered("ladder-opened")
}
