//go:build verif

package hdf5

import (
	"math"

	"github.com/scigolib/hdf5/internal/vrt"
)

// verifSelect computes the reference selection from the full array (row-major order of the selection).
// ok=false when a selected coordinate leaves the dataset bounds.
func verifSelect(full []float64, dims, start, count, stride, block []uint64) (out []float64, ok bool) {
	rank := len(dims)
	// per-dimension index lists
	idx := make([][]uint64, rank)
	for d := 0; d < rank; d++ {
		for c := uint64(0); c < count[d]; c++ {
			for b := uint64(0); b < block[d]; b++ {
				i := start[d] + c*stride[d] + b
				if i >= dims[d] {
					return nil, false
				}
				idx[d] = append(idx[d], i)
			}
		}
	}
	switch rank {
	case 1:
		for _, i := range idx[0] {
			out = append(out, full[i])
		}
	case 2:
		for _, i := range idx[0] {
			for _, j := range idx[1] {
				out = append(out, full[i*dims[1]+j])
			}
		}
	}
	return out, true
}

// C09: hyperslab on a contiguous / chunked float64 dataset. dims forked (<=4 / <=3), count and block forked
// small, start and stride symbolic (bounded by assumption to < 6 so that offsets stay enumerable).
func verifHyperslabScript(chunked bool, rank int) {
	maxExt := 4
	if rank == 2 {
		maxExt = 3
	}
	dims := make([]uint64, rank)
	total := 1
	for i := range dims {
		dims[i] = uint64(1 + vrt.Choice(maxExt))
		total *= int(dims[i])
	}
	data := make([]float64, total)
	for i := range data {
		data[i] = math.Float64frombits(vrt.U64())
	}
	var opts []DatasetOption
	if chunked {
		chunk := make([]uint64, rank)
		for i := range chunk {
			chunk[i] = uint64(1 + vrt.Choice(2))
			if chunk[i] > dims[i] {
				chunk[i] = dims[i]
			}
		}
		opts = append(opts, WithChunkDims(chunk))
	}
	f, d := verifWriteReopen("c09.h5", 2, Float64, dims, data, opts...)
	full, err := d.Read()
	vrt.AssertNoErr(err, "full-read-ok")
	vrt.Assert(len(full) == total, "full-shape")
	start := make([]uint64, rank)
	count := make([]uint64, rank)
	stride := make([]uint64, rank)
	block := make([]uint64, rank)
	for i := 0; i < rank; i++ {
		start[i] = uint64(vrt.Choice(4))
		count[i] = uint64(1 + vrt.Choice(2))
		stride[i] = uint64(1 + vrt.Choice(3))
		block[i] = uint64(1 + vrt.Choice(2))
		vrt.Assume(block[i] <= stride[i]) // blocks must not overlap
	}
	want, valid := verifSelect(full, dims, start, count, stride, block)
	got, err := d.ReadHyperslab(&HyperslabSelection{Start: start, Count: count, Stride: stride, Block: block})
	if !valid {
		vrt.Assert(err != nil, "out-of-bounds-selection-rejected")
		return
	}
	vrt.AssertNoErr(err, "valid-selection-accepted")
	g, ok := got.([]float64)
	vrt.Assert(ok, "hyperslab-type")
	vrt.Assert(len(g) == len(want), "hyperslab-length")
	if len(g) == len(want) {
		for i := range want {
			vrt.Assert(math.Float64bits(g[i]) == math.Float64bits(want[i]), "hyperslab-equals-selection-of-full-read")
		}
	}
	vrt.Covered("hyperslab-compared")
	_ = f.Close()
}

func VerifH_C09_api_contig_1d() { verifHyperslabScript(false, 1) }
func VerifH_C09_api_contig_2d() { verifHyperslabScript(false, 2) }
func VerifH_C09_api_chunked_1d() { verifHyperslabScript(true, 1) }
func VerifH_C09_api_chunked_2d_thorough() { verifHyperslabScript(true, 2) }

// ReadSlice: start/count fully symbolic 64-bit: accepted iff start+count <= dim without wrap-around.
func VerifH_C09_api_readslice_bounds() {
	data := []float64{1, 2, 3, 4}
	f, d := verifWriteReopen("c09b.h5", 2, Float64, []uint64{4}, data)
	s, c := vrt.U64(), vrt.U64()
	got, err := d.ReadSlice([]uint64{s}, []uint64{c})
	inBounds := s <= 4 && c <= 4-s
	if !inBounds {
		vrt.Assert(err != nil, "readslice-out-of-bounds-rejected")
		return
	}
	if err == nil && c > 0 {
		g, ok := got.([]float64)
		vrt.Assert(ok && uint64(len(g)) == c, "readslice-length")
		if ok && uint64(len(g)) == c {
			for i := uint64(0); i < c; i++ {
				vrt.Assert(g[i] == data[s+i], "readslice-values")
			}
		}
	}
	vrt.Covered("readslice-compared")
	_ = f.Close()
}
