//go:build verif

package hdf5

import (
	"math"

	"github.com/scigolib/hdf5/internal/vrt"
)

// verifSelect computes the reference selection from the full array (row-major order of the selection).
// ok=false when a selected coordinate leaves the dataset bounds.
func verifSelect(full []float64, dims, start, count, stride, block []uint64) (out []float64, ok bool) {
	rank := len(dims)
	// per-dimension index lists
	idx := make([][]uint64, rank)
	for d := 0; d < rank; d++ {
		for c := uint64(0); c < count[d]; c++ {
			for b := uint64(0); b < block[d]; b++ {
				i := start[d] + c*stride[d] + b
				if i >= dims[d] {
					return nil, false
				}
				idx[d] = append(idx[d], i)
			}
		}
	}
	switch rank {
	case 1:
		for _, i := range idx[0] {
			out = append(out, full[i])
		}
	case 2:
		for _, i := range idx[0] {
			for _, j := range idx[1] {
				out = append(out, full[i*dims[1]+j])
			}
		}
	}
	return out, true
}

// C09: hyperslab on a contiguous / chunked float64 dataset. dims forked (<=4 / <=3), count and block forked
// small, start and stride symbolic (bounded by assumption to < 6 so that offsets stay enumerable).
func verifHyperslabScript(chunked bool, rank int) { verifHyperslabScriptExt(chunked, rank, 0) }

func verifHyperslabScriptExt(chunked bool, rank, maxExt int) {
	if maxExt == 0 {
		maxExt = 4
		if rank == 2 {
			maxExt = 3
		}
	}
	dims := make([]uint64, rank)
	total := 1
	for i := range dims {
		dims[i] = uint64(1 + vrt.Choice(maxExt))
		total *= int(dims[i])
	}
	data := make([]float64, total)
	for i := range data {
		data[i] = math.Float64frombits(vrt.U64())
	}
	var opts []DatasetOption
	if chunked {
		chunk := make([]uint64, rank)
		for i := range chunk {
			chunk[i] = uint64(1 + vrt.Choice(2))
			if chunk[i] > dims[i] {
				chunk[i] = dims[i]
			}
		}
		opts = append(opts, WithChunkDims(chunk))
	}
	f, d := verifWriteReopen("c09.h5", 2, Float64, dims, data, opts...)
	full, err := d.Read()
	vrt.AssertNoErr(err, "full-read-ok")
	vrt.Assert(len(full) == total, "full-shape")
	start := make([]uint64, rank)
	count := make([]uint64, rank)
	stride := make([]uint64, rank)
	block := make([]uint64, rank)
	for i := 0; i < rank; i++ {
		nStart, nStride := 4, 3
		if maxExt == 2 {
			nStart, nStride = 2, 2 // small variant: start <= 1, stride <= 2
		}
		start[i] = uint64(vrt.Choice(nStart))
		count[i] = uint64(1 + vrt.Choice(2))
		stride[i] = uint64(1 + vrt.Choice(nStride))
		block[i] = uint64(1 + vrt.Choice(2))
		vrt.Assume(block[i] <= stride[i]) // blocks must not overlap
	}
	want, valid := verifSelect(full, dims, start, count, stride, block)
	got, err := d.ReadHyperslab(&HyperslabSelection{Start: start, Count: count, Stride: stride, Block: block})
	if !valid {
		vrt.Assert(err != nil, "out-of-bounds-selection-rejected")
		return
	}
	vrt.AssertNoErr(err, "valid-selection-accepted")
	g, ok := got.([]float64)
	vrt.Assert(ok, "hyperslab-type")
	vrt.Assert(len(g) == len(want), "hyperslab-length")
	if len(g) == len(want) {
		for i := range want {
			vrt.Assert(math.Float64bits(g[i]) == math.Float64bits(want[i]), "hyperslab-equals-selection-of-full-read")
		}
	}
	vrt.Covered("hyperslab-compared")
	_ = f.Close()
}

func VerifH_C09_api_contig_1d() { verifHyperslabScript(false, 1) }
func VerifH_C09_api_contig_2d() { verifHyperslabScript(false, 2) }
func VerifH_C09_api_chunked_1d() { verifHyperslabScript(true, 1) }
func VerifH_C09_api_chunked_2d_thorough() { verifHyperslabScript(true, 2) }

// quick tier: extents <= 2 (selections spanning two chunks in either dimension)
func VerifH_C09_api_chunked_2d_small() { verifHyperslabScriptExt(true, 2, 2) }

// ReadSlice: start/count fully symbolic 64-bit: accepted iff start+count <= dim without wrap-around.
func VerifH_C09_api_readslice_bounds() {
	data := []float64{1, 2, 3, 4}
	f, d := verifWriteReopen("c09b.h5", 2, Float64, []uint64{4}, data)
	s, c := vrt.U64(), vrt.U64()
	got, err := d.ReadSlice([]uint64{s}, []uint64{c})
	inBounds := s <= 4 && c <= 4-s
	if !inBounds {
		vrt.Assert(err != nil, "readslice-out-of-bounds-rejected")
		return
	}
	if err == nil && c > 0 {
		g, ok := got.([]float64)
		vrt.Assert(ok && uint64(len(g)) == c, "readslice-length")
		if ok && uint64(len(g)) == c {
			for i := uint64(0); i < c; i++ {
				vrt.Assert(g[i] == data[s+i], "readslice-values")
			}
		}
	}
	vrt.Covered("readslice-compared")
	_ = f.Close()
}

// chunk iterator: every stored chunk is visited exactly once and the pieces tile the full read exactly
func verifChunkIterator(rank int) {
	maxExt := 4
	if rank == 2 {
		maxExt = 3
	}
	dims := make([]uint64, rank)
	chunk := make([]uint64, rank)
	total := 1
	nchunks := 1
	for i := range dims {
		dims[i] = uint64(1 + vrt.Choice(maxExt))
		chunk[i] = uint64(1 + vrt.Choice(2))
		if chunk[i] > dims[i] {
			chunk[i] = dims[i]
		}
		total *= int(dims[i])
		nchunks *= int((dims[i] + chunk[i] - 1) / chunk[i])
	}
	data := make([]float64, total)
	for i := range data {
		data[i] = math.Float64frombits(vrt.U64())
	}
	f, d := verifWriteReopen("c09i.h5", 2, Float64, dims, data, WithChunkDims(chunk))
	full, err := d.Read()
	vrt.AssertNoErr(err, "full-read-ok")
	vrt.Assert(len(full) == total, "full-shape")
	it, err := d.ChunkIterator()
	vrt.AssertNoErr(err, "iterator-ok")
	vrt.Assert(it.Total() == nchunks, "iterator-counts-every-chunk")
	covered := make([]int, total)
	seen := map[uint64]bool{}
	visits := 0
	for it.Next() {
		visits++
		cc := it.ChunkCoords()
		vrt.Assert(len(cc) == rank, "chunk-coords-rank")
		key := uint64(0)
		for i := 0; i < rank; i++ {
			key = key*16 + cc[i]
		}
		vrt.Assert(!seen[key], "chunk-visited-once")
		seen[key] = true
		piece, err := it.Chunk()
		vrt.AssertNoErr(err, "chunk-read-ok")
		p, ok := piece.([]float64)
		vrt.Assert(ok, "chunk-type")
		// extents of this piece
		ext := make([]uint64, rank)
		n := 1
		for i := 0; i < rank; i++ {
			s := cc[i] * chunk[i]
			vrt.Assert(s < dims[i], "chunk-inside-dataset")
			ext[i] = chunk[i]
			if s+ext[i] > dims[i] {
				ext[i] = dims[i] - s
			}
			n *= int(ext[i])
		}
		vrt.Assert(len(p) == n, "chunk-piece-size")
		if len(p) != n {
			continue
		}
		if rank == 1 {
			for a := 0; a < int(ext[0]); a++ {
				g := int(cc[0]*chunk[0]) + a
				covered[g]++
				vrt.Assert(math.Float64bits(p[a]) == math.Float64bits(full[g]), "chunk-piece-equals-full-read")
			}
		} else {
			for a := 0; a < int(ext[0]); a++ {
				for b := 0; b < int(ext[1]); b++ {
					g := (int(cc[0]*chunk[0])+a)*int(dims[1]) + int(cc[1]*chunk[1]) + b
					covered[g]++
					vrt.Assert(math.Float64bits(p[a*int(ext[1])+b]) == math.Float64bits(full[g]), "chunk-piece-equals-full-read")
				}
			}
		}
	}
	vrt.AssertNoErr(it.Err(), "iterator-no-error")
	vrt.Assert(visits == nchunks, "every-chunk-visited")
	for g := range covered {
		vrt.Assert(covered[g] == 1, "pieces-tile-the-dataset")
	}
	vrt.Covered("iterator-compared")
	_ = f.Close()
}

func VerifH_C09_api_chunk_iterator_1d() { verifChunkIterator(1) }
func VerifH_C09_api_chunk_iterator_2d() { verifChunkIterator(2) }
