//go:build verif

package hdf5

import (
	"os"

	"github.com/scigolib/hdf5/internal/vrt"
)

// C10 E-tier: session 1 creates /a (+k attributes) and /b; sessions 2..: OpenForWrite, OpenDataset(/a),
// symbolic attribute operations, Close. Reopen read-only and compare with the model. A session without
// modification leaves the bytes identical.
func verifSessionsScript(prefix, nsessions int) {
	verifSessionsScriptOpt(prefix, nsessions, false)
}

func verifSessionsScriptOpt(prefix, nsessions int, narrow bool) {
	vrt.LoopBound(400000) // the no-op session compares the whole file byte by byte
	fw, err := CreateForWrite("c10.h5", CreateTruncate)
	vrt.AssertNoErr(err, "create-ok")
	a, err := fw.CreateDataset("/a", Int32, []uint64{2})
	vrt.AssertNoErr(err, "create-a-ok")
	x, y := vrt.I32(), vrt.I32()
	vrt.AssertNoErr(a.Write([]int32{x, y}), "write-a-ok")
	model := map[string]int32{}
	names := []string{"n0", "n1", "n2", "n3", "n4", "n5", "n6", "n7", "n8", "n9"}
	for i := 0; i < prefix; i++ {
		vrt.AssertNoErr(a.WriteAttribute(names[i], int32(i)), "prefix-attr-ok")
		model[names[i]] = int32(i)
	}
	b, err := fw.CreateDataset("/b", Int32, []uint64{1})
	vrt.AssertNoErr(err, "create-b-ok")
	w := vrt.I32()
	vrt.AssertNoErr(b.Write([]int32{w}), "write-b-ok")
	vrt.AssertNoErr(fw.Close(), "close-ok")

	for s := 0; s < nsessions; s++ {
		before, _ := os.ReadFile("c10.h5")
		fw2, err := OpenForWrite("c10.h5", OpenReadWrite)
		vrt.AssertNoErr(err, "open-for-write-ok")
		modified := false
		nchoice := 4
		if narrow {
			nchoice = 2
		}
		pick := vrt.Choice(nchoice)
		if narrow {
			pick = 2 + pick // upsert or delete only
		}
		switch pick {
		case 0: // no operation
		case 1, 2: // upsert
			da, err := fw2.OpenDataset("/a")
			vrt.AssertNoErr(err, "open-dataset-ok")
			name := []string{names[0], names[9]}[vrt.Choice(2)]
			v := vrt.I32()
			if da.WriteAttribute(name, v) == nil {
				model[name] = v
			}
			modified = true
		case 3: // delete
			da, err := fw2.OpenDataset("/a")
			vrt.AssertNoErr(err, "open-dataset-ok")
			name := []string{names[0], names[9]}[vrt.Choice(2)]
			_, present := model[name]
			err = da.DeleteAttribute(name)
			if present {
				vrt.AssertNoErr(err, "delete-present-ok")
			}
			if err == nil {
				delete(model, name)
			}
			modified = true
		}
		vrt.AssertNoErr(fw2.Close(), "session-close-ok")
		if !modified {
			after, _ := os.ReadFile("c10.h5")
			vrt.Assert(len(after) == len(before), "noop-session-same-size")
			same := len(after) == len(before)
			if same {
				for i := range after {
					if after[i] != before[i] {
						same = false
					}
				}
			}
			vrt.Assert(same, "noop-session-byte-identical")
		}
	}

	f, err := Open("c10.h5")
	vrt.AssertNoErr(err, "reopen-ok")
	da := verifFindDataset(f, "/a")
	db := verifFindDataset(f, "/b")
	vrt.Assert(da != nil && db != nil, "objects-present")
	if da != nil {
		v, err := da.Read()
		vrt.AssertNoErr(err, "a-read-ok")
		vrt.Assert(len(v) == 2 && v[0] == float64(x) && v[1] == float64(y), "a-data-preserved")
		list, err := da.ListAttributes()
		vrt.AssertNoErr(err, "a-list-ok")
		vrt.Assert(len(list) == len(model), "a-attr-count-as-model")
		for _, n := range names {
			if want, ok := model[n]; ok {
				got, err := da.ReadAttribute(n)
				vrt.AssertNoErr(err, "a-attr-read-ok")
				gi, isI := got.(int32)
				vrt.Assert(isI && gi == want, "a-attr-as-model")
			}
		}
	}
	if db != nil {
		v, err := db.Read()
		vrt.AssertNoErr(err, "b-read-ok")
		vrt.Assert(len(v) == 1 && v[0] == float64(w), "b-data-preserved")
	}
	vrt.Covered("sessions-compared")
	_ = f.Close()
}

func VerifH_C10_api_sessions_compact() { verifSessionsScript(2, 1) }

// two sessions on dense storage, upsert/delete only (delete in one session, add in the next)
func VerifH_C10_api_sessions_dense_two() { verifSessionsScriptOpt(9, 2, true) }

// a session that replaces a string attribute by a slightly longer one (header growth of 0..9 bytes) on an object that is
// followed by another: refused or applied, never at the neighbour's expense
func VerifH_C10_api_session_small_growth() {
	vrt.LoopBound(400000)
	fw, err := CreateForWrite("c10g.h5", CreateTruncate)
	vrt.AssertNoErr(err, "create-ok")
	a, err := fw.CreateDataset("/a", Int32, []uint64{1})
	vrt.AssertNoErr(err, "create-a-ok")
	vrt.AssertNoErr(a.Write([]int32{5}), "write-a-ok")
	base := 1 + vrt.Choice(8) // so that the header end falls on every residue modulo 8
	s0 := make([]byte, base)
	for i := range s0 {
		s0[i] = 'x'
	}
	vrt.AssertNoErr(a.WriteAttribute("s", string(s0)), "attr-ok")
	b, err := fw.CreateDataset("/b", Int32, []uint64{2})
	vrt.AssertNoErr(err, "create-b-ok")
	y0, y1 := vrt.I32(), vrt.I32()
	vrt.AssertNoErr(b.Write([]int32{y0, y1}), "write-b-ok")
	vrt.AssertNoErr(fw.Close(), "close-ok")
	fw2, err := OpenForWrite("c10g.h5", OpenReadWrite)
	vrt.AssertNoErr(err, "open-for-write-ok")
	da, err := fw2.OpenDataset("/a")
	vrt.AssertNoErr(err, "open-dataset-ok")
	grow := vrt.Choice(10)
	s1 := make([]byte, base+grow)
	for i := range s1 {
		s1[i] = 'y'
	}
	werr := da.WriteAttribute("s", string(s1))
	vrt.AssertNoErr(fw2.Close(), "session-close-ok")
	f, err := Open("c10g.h5")
	vrt.AssertNoErr(err, "reopen-ok")
	db := verifFindDataset(f, "/b")
	vrt.Assert(db != nil, "objects-present")
	if db != nil {
		v, err := db.Read()
		vrt.AssertNoErr(err, "b-read-ok")
		vrt.Assert(len(v) == 2 && v[0] == float64(y0) && v[1] == float64(y1), "b-data-preserved")
	}
	da2 := verifFindDataset(f, "/a")
	vrt.Assert(da2 != nil, "objects-present")
	if da2 != nil {
		got, err := da2.ReadAttribute("s")
		vrt.AssertNoErr(err, "a-attr-read-ok")
		gs, _ := got.(string)
		if werr == nil {
			vrt.Assert(gs == string(s1), "a-attr-as-model")
		} else {
			vrt.Assert(gs == string(s0), "a-attr-as-model")
		}
	}
	vrt.Covered("sessions-compared")
	_ = f.Close()
}
func VerifH_C10_api_sessions_dense() { verifSessionsScript(9, 1) }
func VerifH_C10_api_sessions2_thorough() { verifSessionsScript(2, 2) }
func VerifH_C10_api_sessions_dense2_thorough() { verifSessionsScript(9, 2) }

// overwriting dataset data in a session: /a contiguous, /c chunked (and a neighbour /b). OpenDataset + Write either
// replaces exactly that dataset's values or is refused with an error and changes nothing; everything else is unchanged.
func VerifH_C10_api_session_overwrite() {
	fw, err := CreateForWrite("c10o.h5", CreateTruncate, WithSuperblockVersion([]uint8{0, 2}[vrt.Choice(2)]))
	vrt.AssertNoErr(err, "create-ok")
	a, err := fw.CreateDataset("/a", Int32, []uint64{2})
	vrt.AssertNoErr(err, "create-a-ok")
	da := [2]int32{vrt.I32(), vrt.I32()}
	vrt.AssertNoErr(a.Write(da[:]), "write-a-ok")
	c, err := fw.CreateDataset("/c", Int32, []uint64{2}, WithChunkDims([]uint64{1}))
	vrt.AssertNoErr(err, "create-c-ok")
	dc := [2]int32{vrt.I32(), vrt.I32()}
	vrt.AssertNoErr(c.Write(dc[:]), "write-c-ok")
	b, err := fw.CreateDataset("/b", Int32, []uint64{1})
	vrt.AssertNoErr(err, "create-b-ok")
	w := vrt.I32()
	vrt.AssertNoErr(b.Write([]int32{w}), "write-b-ok")
	vrt.AssertNoErr(fw.Close(), "close-ok")

	s, err := OpenForWrite("c10o.h5", OpenReadWrite)
	vrt.AssertNoErr(err, "open-for-write-ok")
	target := []string{"/a", "/c"}[vrt.Choice(2)]
	d, err := s.OpenDataset(target)
	vrt.AssertNoErr(err, "open-dataset-ok")
	nv := [2]int32{vrt.I32(), vrt.I32()}
	if d.Write(nv[:]) == nil {
		if target == "/a" {
			da = nv
		} else {
			dc = nv
		}
	}
	vrt.AssertNoErr(s.Close(), "session-close-ok")

	f, err := Open("c10o.h5")
	vrt.AssertNoErr(err, "reopen-ok")
	for _, chk := range []struct {
		path string
		want []int32
	}{{"/a", da[:]}, {"/c", dc[:]}, {"/b", []int32{w}}} {
		ds := verifFindDataset(f, chk.path)
		vrt.Assert(ds != nil, "dataset-found-at-path")
		if ds == nil {
			continue
		}
		got, err := ds.Read()
		vrt.AssertNoErr(err, "read-after-session-ok")
		if err == nil {
			vrt.Assert(len(got) == len(chk.want), "shape-after-session")
			if len(got) == len(chk.want) {
				for i := range got {
					vrt.Assert(got[i] == float64(chk.want[i]), "content-is-previous-plus-modification")
				}
			}
		}
	}
	vrt.Covered("sessions-compared")
	_ = f.Close()
}

// sessions on files written by the reference library (corpus): an attribute write or a data overwrite on the first
// dataset is either refused — then the file stays byte-identical — or accepted — then exactly that changes
func VerifH_C10_api_session_corpus() {
	vrt.LoopBound(400000)
	names := []string{"with_groups.h5", "with_attributes.h5", "multiple_datasets.h5", "v0.h5", "v2.h5", "v3.h5", "test_3d_chunked.h5"}
	raw := vrt.Corpus("testdata/" + names[vrt.Choice(len(names))])
	vrt.AssertNoErr(os.WriteFile("c10c.h5", raw, 0o644), "write-ok")
	before, err := verifDumpFile("c10c.h5")
	vrt.AssertNoErr(err, "intact-open-ok")
	s, err := OpenForWrite("c10c.h5", OpenReadWrite)
	vrt.AssertNoErr(err, "open-for-write-ok")
	first := ""
	s.file.Walk(func(p string, o Object) {
		if _, ok := o.(*Dataset); ok && first == "" {
			first = p
		}
	})
	vrt.Assert(first != "", "dataset-found-at-path")
	d, err := s.OpenDataset(first)
	vrt.AssertNoErr(err, "open-dataset-ok")
	accepted := false
	addAttr := vrt.Bool()
	if addAttr {
		accepted = d.WriteAttribute("zz_new", vrt.I32()) == nil
	} else {
		accepted = d.DeleteAttribute("units") == nil
	}
	vrt.AssertNoErr(s.Close(), "session-close-ok")
	after, err := os.ReadFile("c10c.h5")
	vrt.AssertNoErr(err, "raw-read-ok")
	if !accepted {
		same := len(after) == len(raw)
		if same {
			for i := range raw {
				if raw[i] != after[i] {
					same = false
				}
			}
		}
		vrt.Assert(same, "no-op-session-bytes-identical")
	}
	now, err := verifDumpFile("c10c.h5")
	vrt.AssertNoErr(err, "reopen-ok")
	vrt.Assert(len(now.paths) == len(before.paths), "content-is-previous-plus-modification")
	vrt.Assert(len(now.vals) == len(before.vals), "content-is-previous-plus-modification")
	if len(now.vals) == len(before.vals) {
		for i := range now.vals {
			vrt.Assert(now.vals[i] == before.vals[i] || (now.vals[i] != now.vals[i] && before.vals[i] != before.vals[i]), "content-is-previous-plus-modification")
		}
	}
	wantAttrs := len(before.attrs)
	if accepted && addAttr {
		wantAttrs++
	} else if accepted {
		wantAttrs--
	}
	vrt.Assert(len(now.attrs) == wantAttrs, "attribute-count-after-session")
	vrt.Covered("sessions-compared")
}

// a session that makes the object's attribute storage change from compact to dense (the header is full after the 5th
// attribute), followed by more operations on the same handle: upserts and deletes of names stored before and after the
// transition behave like on a map
func VerifH_C10_api_session_transition() {
	vrt.LoopBound(400000)
	fw, err := CreateForWrite("c10t.h5", CreateTruncate)
	vrt.AssertNoErr(err, "create-ok")
	a, err := fw.CreateDataset("/a", Int32, []uint64{1})
	vrt.AssertNoErr(err, "create-a-ok")
	vrt.AssertNoErr(a.Write([]int32{1}), "write-a-ok")
	model := map[string]int32{}
	isStr := map[string]bool{}
	for i, n := range []string{"p0", "p1", "p2"} {
		vrt.AssertNoErr(a.WriteAttribute(n, int32(i)), "prefix-attr-ok")
		model[n] = int32(i)
	}
	vrt.AssertNoErr(fw.Close(), "close-ok")

	s, err := OpenForWrite("c10t.h5", OpenReadWrite)
	vrt.AssertNoErr(err, "open-for-write-ok")
	d, err := s.OpenDataset("/a")
	vrt.AssertNoErr(err, "open-dataset-ok")
	for _, n := range []string{"p4", "p13"} {
		v := vrt.I32()
		vrt.AssertNoErr(d.WriteAttribute(n, v), "session-attr-ok")
		model[n] = v
	}
	name := []string{"p0", "p4", "p13", "p9"}[vrt.Choice(4)]
	_, present := model[name]
	switch vrt.Choice(3) {
	case 0:
		v := vrt.I32()
		if d.WriteAttribute(name, v) == nil {
			model[name] = v
		}
	case 1:
		if d.WriteAttribute(name, "str4") == nil {
			model[name] = 0
			isStr[name] = true
		}
	default:
		err := d.DeleteAttribute(name)
		if present {
			vrt.AssertNoErr(err, "delete-present-ok")
		} else {
			vrt.Assert(err != nil, "delete-absent-reports-error")
		}
		if err == nil {
			delete(model, name)
		}
	}
	vrt.AssertNoErr(s.Close(), "session-close-ok")

	f, err := Open("c10t.h5")
	vrt.AssertNoErr(err, "reopen-ok")
	da := verifFindDataset(f, "/a")
	vrt.Assert(da != nil, "dataset-found-at-path")
	list, err := da.ListAttributes()
	vrt.AssertNoErr(err, "list-attributes-ok")
	vrt.Assert(len(list) == len(model), "attribute-count-after-session")
	seen := map[string]bool{}
	for _, n := range list {
		vrt.Assert(!seen[n], "attr-names-unique")
		seen[n] = true
	}
	for n, want := range model {
		got, err := da.ReadAttribute(n)
		vrt.AssertNoErr(err, "attr-read-ok")
		if isStr[n] {
			gs, ok := got.(string)
			vrt.Assert(ok && gs == "str4", "content-is-previous-plus-modification")
		} else {
			gi, ok := got.(int32)
			vrt.Assert(ok && gi == want, "content-is-previous-plus-modification")
		}
	}
	vrt.Covered("sessions-compared")
	_ = f.Close()
}

// the session of VerifH_C16_api_session_refused_upsert seen from C10: a session whose first modification is refused
// and whose second is accepted yields the previous content with exactly the accepted modification applied
func VerifH_C10_api_session_refused_then_accepted() { VerifH_C16_api_session_refused_upsert() }

// a session whose only call is refused makes no modification: the file is byte-identical afterwards. One label per
// kind of refused call (creation calls are refused in sessions by this version of the library).
func VerifH_C10_api_session_only_refused_call() {
	vrt.LoopBound(100000)
	ver := []uint8{0, 2}[vrt.Choice(2)]
	fw, err := CreateForWrite("c10f.h5", CreateTruncate, WithSuperblockVersion(ver))
	vrt.AssertNoErr(err, "create-ok")
	d, err := fw.CreateDataset("/a", Int32, []uint64{2})
	vrt.AssertNoErr(err, "create-a-ok")
	vrt.AssertNoErr(d.Write([]int32{vrt.I32(), 2}), "write-a-ok")
	vrt.AssertNoErr(d.WriteAttribute("k", int32(5)), "attr-ok")
	_, err = fw.CreateGroup("/g")
	vrt.AssertNoErr(err, "group-ok")
	vrt.AssertNoErr(fw.Close(), "close-ok")
	before, err := os.ReadFile("c10f.h5")
	vrt.AssertNoErr(err, "raw-read-ok")

	s, err := OpenForWrite("c10f.h5", OpenReadWrite)
	vrt.AssertNoErr(err, "session-open-ok")
	kind := vrt.Choice(8)
	var cerr error
	switch kind {
	case 0:
		_, cerr = s.CreateDataset("/n", Int32, []uint64{1})
	case 1:
		_, cerr = s.CreateDataset("/g/n", Int32, []uint64{1})
	case 2:
		_, cerr = s.CreateGroup("/h")
	case 3:
		cerr = s.CreateHardLink("/l", "/a")
	case 4:
		cerr = s.CreateSoftLink("/l", "/a")
	case 5:
		_, cerr = s.CreateDataset("/a", Int32, []uint64{1})
	case 6:
		_, cerr = s.OpenDataset("/zz")
	default:
		h, err := s.OpenDataset("/a")
		vrt.AssertNoErr(err, "open-dataset-ok")
		cerr = h.WriteAttribute("big", "0123456789012345678901234567890123456789012345678901234567890123456789")
	}
	vrt.AssertNoErr(s.Close(), "close-ok")
	vrt.Covered("refused-call-session-closed")
	if cerr == nil {
		return // accepted: other harnesses compare the content
	}
	after, err := os.ReadFile("c10f.h5")
	vrt.AssertNoErr(err, "raw-read-ok")
	same := len(after) == len(before)
	if same {
		for i := range before {
			if after[i] != before[i] {
				same = false
				break
			}
		}
	}
	switch kind {
	case 0, 1, 5:
		vrt.Assert(same, "refused-create-dataset-leaves-file-byte-identical")
	case 2:
		vrt.Assert(same, "refused-create-group-leaves-file-byte-identical")
	case 4:
		vrt.Assert(same, "refused-soft-link-leaves-file-byte-identical")
	default:
		vrt.Assert(same, "refused-call-leaves-file-byte-identical")
	}
}
