//go:build verif

package hdf5

import (
	"strings"

	"github.com/scigolib/hdf5/internal/vrt"
)

// C12 E-tier: variable-length strings, n in 1..2, lengths 0..3, bytes symbolic (non-NUL); reopen;
// the dataset must be recognised as variable-length string data and read back exactly, or the read must fail.
func VerifH_C12_api_vlen_strings() {
	n := 1 + vrt.Choice(2)
	data := make([]string, n)
	for i := range data {
		l := vrt.Choice(4)
		b := vrt.Bytes(l)
		for _, c := range b {
			vrt.Assume(c != 0)
		}
		data[i] = string(b)
	}
	f, d := verifWriteReopen("c12.h5", 2, VLenString, []uint64{uint64(n)}, data)
	info, err := d.Info()
	vrt.AssertNoErr(err, "vlen-info-ok")
	vrt.Assert(strings.Contains(strings.ToLower(info), "variable") || strings.Contains(strings.ToLower(info), "vlen"), "recognised-as-variable-length")
	got, err := d.ReadStrings()
	if err == nil {
		vrt.Assert(len(got) == n, "vlen-count")
		if len(got) == n {
			for i := range data {
				vrt.Assert(got[i] == data[i], "vlen-string-exact")
			}
		}
	}
	_, err2 := d.Read()
	_ = err2
	vrt.Covered("vlen-compared")
	_ = f.Close()
}

// ragged int32 sequences
func VerifH_C12_api_vlen_int32() {
	n := 1 + vrt.Choice(2)
	data := make([][]int32, n)
	for i := range data {
		l := vrt.Choice(3)
		data[i] = make([]int32, l)
		for j := range data[i] {
			data[i][j] = vrt.I32()
		}
	}
	f, d := verifWriteReopen("c12b.h5", 2, VLenInt32, []uint64{uint64(n)}, data)
	info, err := d.Info()
	vrt.AssertNoErr(err, "vlen-info-ok")
	vrt.Assert(strings.Contains(strings.ToLower(info), "variable") || strings.Contains(strings.ToLower(info), "vlen"), "recognised-as-variable-length")
	got, err := d.Read()
	if err == nil {
		// no typed vlen read exists: a value result would have to be the written data, which []float64 cannot express for ragged rows
		vrt.Assert(len(got) == 0, "vlen-numeric-read-returns-different-values")
	}
	vrt.Covered("vlen-compared")
	_ = f.Close()
}
