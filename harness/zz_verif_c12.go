//go:build verif

package hdf5

import (
	"encoding/binary"
	"math"
	"os"

	"github.com/scigolib/hdf5/internal/core"
	"github.com/scigolib/hdf5/internal/vrt"
)

// verifDatatypeOf parses the stored datatype message of a reopened dataset.
func verifDatatypeOf(d *Dataset) *core.DatatypeMessage {
	h, err := core.ReadObjectHeader(d.file.osFile, d.address, d.file.sb)
	vrt.AssertNoErr(err, "header-read-ok")
	for _, m := range h.Messages {
		if m.Type == core.MsgDatatype {
			dt, err := core.ParseDatatypeMessage(m.Data)
			vrt.AssertNoErr(err, "datatype-parse-ok")
			return dt
		}
	}
	vrt.Fail("datatype-message-present")
	return nil
}

// C12 E-tier: variable-length strings, n in 1..2, lengths 0..3, bytes symbolic (non-NUL); reopen;
// the dataset must be recognised as variable-length string data and read back exactly, or the read must fail.
func VerifH_C12_api_vlen_strings() {
	n := 1 + vrt.Choice(2)
	data := make([]string, n)
	for i := range data {
		l := vrt.Choice(4)
		b := vrt.Bytes(l)
		for _, c := range b {
			vrt.Assume(c != 0)
		}
		data[i] = string(b)
	}
	f, d := verifWriteReopen("c12.h5", 2, VLenString, []uint64{uint64(n)}, data)
	dt := verifDatatypeOf(d)
	vrt.Assert(dt.Class == core.DatatypeVarLen, "recognised-as-variable-length")
	vrt.Assert(dt.IsVariableString(), "recognised-as-variable-length-string")
	got, err := d.ReadStrings()
	if err == nil {
		vrt.Assert(len(got) == n, "vlen-count")
		if len(got) == n {
			for i := range data {
				vrt.Assert(got[i] == data[i], "vlen-string-exact")
			}
		}
	}
	_, err2 := d.Read()
	_ = err2
	vrt.Covered("vlen-compared")
	_ = f.Close()
}

// ragged int32 sequences
func VerifH_C12_api_vlen_int32() {
	n := 1 + vrt.Choice(2)
	data := make([][]int32, n)
	for i := range data {
		l := vrt.Choice(3)
		data[i] = make([]int32, l)
		for j := range data[i] {
			data[i][j] = vrt.I32()
		}
	}
	f, d := verifWriteReopen("c12b.h5", 2, VLenInt32, []uint64{uint64(n)}, data)
	dt := verifDatatypeOf(d)
	vrt.Assert(dt.Class == core.DatatypeVarLen, "recognised-as-variable-length")
	vrt.Assert(!dt.IsVariableString(), "sequence-not-reported-as-string")
	// base type preserved: 4-byte fixed-point
	base, err := core.ParseDatatypeMessage(dt.Properties)
	vrt.AssertNoErr(err, "vlen-base-type-parses")
	vrt.Assert(base.Class == core.DatatypeFixed && base.Size == 4, "vlen-base-type-preserved")
	got, err := d.Read()
	if err == nil {
		// no typed vlen read exists: a value result would have to be the written data, which []float64 cannot express for ragged rows
		vrt.Assert(len(got) == 0, "vlen-numeric-read-returns-different-values")
	}
	vrt.Covered("vlen-compared")
	_ = f.Close()
}

// verifVLenElements resolves the stored 16-byte references of a 1-D variable-length dataset through the library's
// own global-heap reader (the library has no public vlen dataset read).
func verifVLenElements(d *Dataset, n int) ([][]byte, error) {
	h, err := core.ReadObjectHeader(d.file.osFile, d.address, d.file.sb)
	if err != nil {
		return nil, err
	}
	var layout *core.DataLayoutMessage
	for _, m := range h.Messages {
		if m.Type == core.MsgDataLayout {
			layout, err = core.ParseDataLayoutMessage(m.Data, d.file.sb)
			if err != nil {
				return nil, err
			}
		}
	}
	if layout == nil {
		return nil, os.ErrNotExist
	}
	raw := make([]byte, 16*n)
	if _, err := d.file.osFile.ReadAt(raw, int64(layout.DataAddress)); err != nil {
		return nil, err
	}
	out := make([][]byte, n)
	for i := 0; i < n; i++ {
		ref := raw[16*i : 16*i+16]
		addr := binary.LittleEndian.Uint64(ref[0:8])
		idx := binary.LittleEndian.Uint32(ref[8:12])
		col, err := core.ReadGlobalHeapCollection(d.file.osFile, addr, 8)
		if err != nil {
			return nil, err
		}
		obj, err := col.GetObject(idx)
		if err != nil {
			return nil, err
		}
		out[i] = obj.Data
	}
	return out, nil
}

// elements that fill a heap collection exactly or just overflow it (lengths forked around 4048 and 4064..4081), followed
// by an empty and a short element; bytes symbolic at a few positions. Close must not panic; every element reads back.
func VerifH_C12_api_vlen_collection_boundary() {
	vrt.LoopBound(20000)
	lens := []int{4047, 4048, 4049, 4063, 4064, 4065, 4072, 4080, 4081}
	L := lens[vrt.Choice(len(lens))]
	big := make([]byte, L)
	for i := range big {
		big[i] = 'a' + byte(i%23)
	}
	big[0], big[L-1] = 'A'+vrt.U8()%26, 'A'+vrt.U8()%26
	second := []string{"", "t", "tail"}[vrt.Choice(3)]
	data := []string{string(big), second, "z"}
	f, d := verifWriteReopen("c12b.h5", 2, VLenString, []uint64{3}, data)
	elems, err := verifVLenElements(d, 3)
	vrt.AssertNoErr(err, "vlen-elements-resolve")
	if err == nil {
		for i := range data {
			vrt.Assert(string(elems[i]) == data[i], "vlen-element-bytes-exact")
		}
	}
	vrt.Covered("vlen-boundary-compared")
	_ = f.Close()
}

// ragged sequences of every supported base type: the stored datatype is variable-length *of the written base type*
// (class, size, signedness) and the stored element bytes are the little-endian encodings of the written values
func VerifH_C12_api_vlen_base_types() {
	kind := vrt.Choice(6)
	var dtype Datatype
	var data interface{}
	var want [][]byte
	wantClass, wantSize, wantSigned := core.DatatypeFixed, uint32(4), false
	a, b := vrt.U64(), vrt.U64()
	le := func(v uint64, n int) []byte {
		out := make([]byte, n)
		for i := 0; i < n; i++ {
			out[i] = byte(v >> (8 * i))
		}
		return out
	}
	switch kind {
	case 0:
		dtype, data, wantSigned = VLenInt32, [][]int32{{int32(a), int32(b)}, {}}, true
		want = [][]byte{append(le(uint64(uint32(a)), 4), le(uint64(uint32(b)), 4)...), {}}
	case 1:
		dtype, data = VLenUint32, [][]uint32{{uint32(a), uint32(b)}, {}}
		want = [][]byte{append(le(uint64(uint32(a)), 4), le(uint64(uint32(b)), 4)...), {}}
	case 2:
		dtype, data, wantSigned, wantSize = VLenInt64, [][]int64{{int64(a)}, {int64(b)}}, true, 8
		want = [][]byte{le(a, 8), le(b, 8)}
	case 3:
		dtype, data, wantSize = VLenUint64, [][]uint64{{a}, {b}}, 8
		want = [][]byte{le(a, 8), le(b, 8)}
	case 4:
		dtype, data, wantClass = VLenFloat32, [][]float32{{math.Float32frombits(uint32(a))}, {math.Float32frombits(uint32(b))}}, core.DatatypeFloat
		want = [][]byte{le(uint64(uint32(a)), 4), le(uint64(uint32(b)), 4)}
	default:
		dtype, data, wantClass, wantSize = VLenFloat64, [][]float64{{math.Float64frombits(a)}, {math.Float64frombits(b)}}, core.DatatypeFloat, 8
		want = [][]byte{le(a, 8), le(b, 8)}
	}
	f, d := verifWriteReopen("c12t.h5", 2, dtype, []uint64{2}, data)
	dt := verifDatatypeOf(d)
	vrt.Assert(dt.Class == core.DatatypeVarLen, "recognised-as-variable-length")
	vrt.Assert(!dt.IsVariableString(), "sequence-not-reported-as-string")
	base, err := core.ParseDatatypeMessage(dt.Properties)
	vrt.AssertNoErr(err, "vlen-base-type-parses")
	if err == nil {
		vrt.Assert(base.Class == wantClass && base.Size == wantSize, "vlen-base-type-preserved")
		if wantClass == core.DatatypeFixed {
			vrt.Assert(base.IsSignedInteger() == wantSigned, "vlen-base-signedness-preserved")
		}
	}
	elems, err := verifVLenElements(d, 2)
	vrt.AssertNoErr(err, "vlen-elements-resolve")
	if err == nil {
		for i := range want {
			vrt.Assert(string(elems[i]) == string(want[i]), "vlen-element-bytes-exact")
		}
	}
	vrt.Covered("vlen-compared")
	_ = f.Close()
}
