//go:build verif

package hdf5

import (
	"github.com/scigolib/hdf5/internal/vrt"
)

// C13 E-tier: 1-D resizable chunked int32 dataset; one or two resize steps with an optional rewrite;
// reopen; shape = last requested shape, retained elements keep values, new space reads zero.
func verifResizeScript(nsteps int) {
	n0 := 1 + vrt.Choice(3)
	chunk := uint64(1 + vrt.Choice(2))
	if chunk > uint64(n0) {
		chunk = uint64(n0)
	}
	var maxDim uint64
	unlimited := vrt.Bool()
	if unlimited {
		maxDim = Unlimited
	} else {
		maxDim = uint64(n0 + vrt.Choice(3))
	}
	fw, err := CreateForWrite("c13.h5", CreateTruncate)
	vrt.AssertNoErr(err, "create-ok")
	ds, err := fw.CreateDataset("/d", Int32, []uint64{uint64(n0)}, WithChunkDims([]uint64{chunk}), WithMaxDims([]uint64{maxDim}))
	vrt.AssertNoErr(err, "create-dataset-ok")
	model := make([]int32, n0)
	for i := range model {
		model[i] = vrt.I32()
	}
	// regrown[i]: position i was cut off by a shrink and exposed again by a later grow without a rewrite
	// (was a defect, repaired in /repo: the old chunk stayed in the index and its value reappeared; the label stays separate).
	regrown := make([]bool, 8)
	high := n0 // one past the highest position ever written and not rewritten since
	vrt.AssertNoErr(ds.Write(model), "write-ok")
	for s := 0; s < nsteps; s++ {
		newN := 1 + vrt.Choice(5)
		err := ds.Resize([]uint64{uint64(newN)})
		within := unlimited || uint64(newN) <= maxDim
		if within {
			vrt.AssertNoErr(err, "resize-within-max-accepted")
		} else {
			vrt.Assert(err != nil, "resize-beyond-max-rejected")
		}
		if err != nil {
			continue
		}
		nm := make([]int32, newN)
		for i := 0; i < newN && i < len(model); i++ {
			nm[i] = model[i]
		}
		for i := len(model); i < newN; i++ {
			if i < high {
				regrown[i] = true
			}
		}
		model = nm
		if vrt.Bool() {
			for i := range model {
				model[i] = vrt.I32()
				regrown[i] = false
			}
			vrt.AssertNoErr(ds.Write(model), "rewrite-ok")
			high = len(model)
		}
	}
	vrt.AssertNoErr(fw.Close(), "close-ok")
	f, err := Open("c13.h5")
	vrt.AssertNoErr(err, "reopen-ok")
	d := verifFindDataset(f, "/d")
	vrt.Assert(d != nil, "dataset-found-at-path")
	got, err := d.Read()
	vrt.AssertNoErr(err, "read-after-resize-ok")
	vrt.Assert(len(got) == len(model), "shape-is-last-requested")
	if len(got) == len(model) {
		for i := range model {
			if regrown[i] {
				vrt.Assert(got[i] == float64(model[i]), "regrown-space-reads-zero")
			} else {
				vrt.Assert(got[i] == float64(model[i]), "values-after-resize")
			}
		}
	}
	vrt.Covered("resize-compared")
	_ = f.Close()
}

func VerifH_C13_api_resize1() { verifResizeScript(1) }
func VerifH_C13_api_resize2() { verifResizeScript(2) }
func VerifH_C13_api_resize3_thorough() { verifResizeScript(3) }

// rank 2 with mixed maximum dimensions ([Unlimited, m] / [m, Unlimited] / fixed): accept within, reject beyond; shape and values after reopen
func VerifH_C13_api_resize_rank2() { verifResizeRank2(1, 1, 1) }

// chunks of 2x2 with extents that are not multiples of the chunk: growing into the padded part of an edge chunk
func VerifH_C13_api_resize_rank2_edge() { verifResizeRank2(2, 2, 1) }

// two steps without a rewrite in between (shrink then grow included): space cut off and exposed again reads zero
func VerifH_C13_api_resize_rank2_two_thorough()      { verifResizeRank2(1, 1, 2) }
func VerifH_C13_api_resize_rank2_edge_two_thorough() { verifResizeRank2(2, 2, 2) }

func verifResizeRank2(c0, c1, nsteps int) {
	d0, d1 := c0+vrt.Choice(2), c1+vrt.Choice(2)
	var m0, m1 uint64
	switch vrt.Choice(3) {
	case 0:
		m0, m1 = Unlimited, uint64(d1+vrt.Choice(2))
	case 1:
		m0, m1 = uint64(d0+vrt.Choice(2)), Unlimited
	default:
		m0, m1 = uint64(d0+vrt.Choice(2)), uint64(d1+vrt.Choice(2))
	}
	fw, err := CreateForWrite("c13r2.h5", CreateTruncate)
	vrt.AssertNoErr(err, "create-ok")
	ds, err := fw.CreateDataset("/d", Int32, []uint64{uint64(d0), uint64(d1)}, WithChunkDims([]uint64{uint64(c0), uint64(c1)}), WithMaxDims([]uint64{m0, m1}))
	vrt.AssertNoErr(err, "create-dataset-ok")
	model := make([]int32, d0*d1)
	for i := range model {
		model[i] = vrt.I32()
	}
	vrt.AssertNoErr(ds.Write(model), "write-ok")
	shape0, shape1 := d0, d1
	for step := 0; step < nsteps; step++ {
		n0, n1 := 1+vrt.Choice(4), 1+vrt.Choice(4)
		err = ds.Resize([]uint64{uint64(n0), uint64(n1)})
		within := (m0 == Unlimited || uint64(n0) <= m0) && (m1 == Unlimited || uint64(n1) <= m1)
		if within {
			vrt.AssertNoErr(err, "resize-within-max-accepted")
		} else {
			vrt.Assert(err != nil, "resize-beyond-max-rejected")
		}
		if err == nil {
			nm := make([]int32, n0*n1)
			for i := 0; i < n0 && i < shape0; i++ {
				for j := 0; j < n1 && j < shape1; j++ {
					nm[i*n1+j] = model[i*shape1+j]
				}
			}
			model = nm
			shape0, shape1 = n0, n1
			if step == nsteps-1 && vrt.Bool() {
				for i := range model {
					model[i] = vrt.I32()
				}
				vrt.AssertNoErr(ds.Write(model), "rewrite-ok")
			}
		}
	}
	vrt.AssertNoErr(fw.Close(), "close-ok")
	f, err := Open("c13r2.h5")
	vrt.AssertNoErr(err, "reopen-ok")
	d := verifFindDataset(f, "/d")
	vrt.Assert(d != nil, "dataset-found-at-path")
	got, err := d.Read()
	vrt.AssertNoErr(err, "read-after-resize-ok")
	vrt.Assert(len(got) == shape0*shape1, "shape-is-last-requested")
	if len(got) == len(model) {
		for i := range model {
			vrt.Assert(got[i] == float64(model[i]), "values-after-resize")
		}
	}
	vrt.Covered("resize-compared")
	_ = f.Close()
}
