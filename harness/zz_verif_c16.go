//go:build verif

package hdf5

import (
	"github.com/scigolib/hdf5/internal/vrt"
)

// C16 E-tier: a valid script with one failing call (chosen symbolically) inserted; after Close (twice)
// and reopen the content equals the model that ignores the failed call; later calls behave normally.
func VerifH_C16_api_failing_call() {
	fw, err := CreateForWrite("c16.h5", CreateTruncate)
	vrt.AssertNoErr(err, "create-ok")
	a, err := fw.CreateDataset("/a", Int32, []uint64{2})
	vrt.AssertNoErr(err, "create-a-ok")
	x, y := vrt.I32(), vrt.I32()
	vrt.AssertNoErr(a.Write([]int32{x, y}), "write-a-ok")
	vrt.AssertNoErr(a.WriteAttribute("k", int32(5)), "attr-ok")
	_, err = fw.CreateGroup("/g")
	vrt.AssertNoErr(err, "group-ok")

	// one failing call
	var ferr error
	switch vrt.Choice(12) {
	case 0:
		_, ferr = fw.CreateDataset("/nope/d", Int32, []uint64{1}) // missing parent
	case 1:
		_, ferr = fw.CreateDataset("bad", Int32, []uint64{1}) // invalid name
	case 2:
		_, ferr = fw.CreateDataset("/z", Int32, []uint64{0}) // zero extent
	case 3:
		ferr = a.Write([]int32{1, 2, 3}) // size mismatch
	case 4:
		_, ferr = fw.CreateGroup("/nope/g") // missing parent
	case 5:
		ferr = fw.CreateHardLink("/nope/l", "/a") // missing parent of the link
	case 6:
		ferr = fw.CreateHardLink("/l", "/missing") // missing target
	case 7:
		ferr = a.DeleteAttribute("absent")
	case 8:
		ferr = a.Resize([]uint64{5}) // not resizable
	case 9:
		_, ferr = fw.CreateGroup("/g") // duplicate group: the existing /g must stay usable
	case 10:
		_, ferr = fw.CreateDataset("/a", Int32, []uint64{1}) // duplicate dataset name
	case 11:
		// /a's header is followed by /g's structures: growing it in place must be refused, twice in a row
		ferr = a.WriteAttribute("big", []int32{1, 2})
		if ferr != nil {
			ferr2 := a.WriteAttribute("big", []int32{1, 2})
			vrt.Assert(ferr2 != nil, "refused-call-refused-again")
			ferr3 := a.WriteAttribute("k2", int32(1))
			vrt.Assert(ferr3 != nil, "refused-call-refused-again")
		}
	}
	vrt.Assert(ferr != nil, "invalid-call-returns-error")

	// the writer stays usable
	b, err := fw.CreateDataset("/g/b", Int32, []uint64{1})
	vrt.AssertNoErr(err, "later-create-ok")
	z := vrt.I32()
	vrt.AssertNoErr(b.Write([]int32{z}), "later-write-ok")
	vrt.AssertNoErr(fw.Close(), "close-ok")
	_ = fw.Close() // any number of times, must not panic

	f, err := Open("c16.h5")
	vrt.AssertNoErr(err, "reopen-ok")
	tree, dup := verifTree(f)
	vrt.Assert(!dup, "no-name-twice")
	want := map[string]bool{"/": true, "/a": true, "/g": true, "/g/b": true}
	for p := range tree {
		q := p
		if len(q) > 1 && q[len(q)-1] == '/' {
			q = q[:len(q)-1]
		}
		vrt.Assert(want[q], "failed-call-left-no-object")
	}
	da := verifFindDataset(f, "/a")
	vrt.Assert(da != nil, "a-present")
	if da != nil {
		v, err := da.Read()
		vrt.AssertNoErr(err, "a-read-ok")
		vrt.Assert(len(v) == 2 && v[0] == float64(x) && v[1] == float64(y), "a-data-unchanged")
		at, err := da.ReadAttribute("k")
		vrt.AssertNoErr(err, "a-attr-read-ok")
		ai, ok := at.(int32)
		vrt.Assert(ok && ai == 5, "a-attr-unchanged")
		list, _ := da.ListAttributes()
		vrt.Assert(len(list) == 1, "a-attr-count-unchanged")
	}
	db := verifFindDataset(f, "/g/b")
	vrt.Assert(db != nil, "b-present")
	if db != nil {
		v, err := db.Read()
		vrt.AssertNoErr(err, "b-read-ok")
		vrt.Assert(len(v) == 1 && v[0] == float64(z), "b-data")
	}
	vrt.Covered("failing-call-compared")
	_ = f.Close()
}
