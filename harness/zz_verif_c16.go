//go:build verif

package hdf5

import (
	"github.com/scigolib/hdf5/internal/vrt"
)

// C16 E-tier: a valid script with one failing call (chosen symbolically) inserted; after Close (twice)
// and reopen the content equals the model that ignores the failed call; later calls behave normally.
func VerifH_C16_api_failing_call() {
	fw, err := CreateForWrite("c16.h5", CreateTruncate)
	vrt.AssertNoErr(err, "create-ok")
	a, err := fw.CreateDataset("/a", Int32, []uint64{2})
	vrt.AssertNoErr(err, "create-a-ok")
	x, y := vrt.I32(), vrt.I32()
	vrt.AssertNoErr(a.Write([]int32{x, y}), "write-a-ok")
	vrt.AssertNoErr(a.WriteAttribute("k", int32(5)), "attr-ok")
	_, err = fw.CreateGroup("/g")
	vrt.AssertNoErr(err, "group-ok")

	// one failing call
	var ferr error
	switch vrt.Choice(20) {
	case 0:
		_, ferr = fw.CreateDataset("/nope/d", Int32, []uint64{1}) // missing parent
	case 1:
		_, ferr = fw.CreateDataset("bad", Int32, []uint64{1}) // invalid name
	case 2:
		_, ferr = fw.CreateDataset("/z", Int32, []uint64{0}) // zero extent
	case 3:
		ferr = a.Write([]int32{1, 2, 3}) // size mismatch
	case 4:
		_, ferr = fw.CreateGroup("/nope/g") // missing parent
	case 5:
		ferr = fw.CreateHardLink("/nope/l", "/a") // missing parent of the link
	case 6:
		ferr = fw.CreateHardLink("/l", "/missing") // missing target
	case 7:
		ferr = a.DeleteAttribute("absent")
	case 8:
		ferr = a.Resize([]uint64{5}) // not resizable
	case 9:
		_, ferr = fw.CreateGroup("/g") // duplicate group: the existing /g must stay usable
	case 10:
		_, ferr = fw.CreateDataset("/a", Int32, []uint64{1}) // duplicate dataset name
	case 11:
		// /a's header is followed by /g's structures: growing it in place must be refused, twice in a row
		ferr = a.WriteAttribute("big", []int32{1, 2})
		if ferr != nil {
			ferr2 := a.WriteAttribute("big", []int32{1, 2})
			vrt.Assert(ferr2 != nil, "refused-call-refused-again")
			ferr3 := a.WriteAttribute("k2", int32(1))
			vrt.Assert(ferr3 != nil, "refused-call-refused-again")
		}
	case 12:
		// links cannot be added to a small (symbol table) group: the refusal must not leave the group behind
		ferr = fw.CreateGroupWithLinks("/gl", map[string]string{"x": "/a"})
	case 13:
		ferr = fw.CreateDenseGroup("/dg", map[string]string{"x": "/nothing"}) // link target missing
	case 14:
		ferr = fw.CreateExternalLink("/missing/e", "other.h5", "/x") // parent missing
	case 15:
		// extents whose byte size does not fit 64 bits (the product wraps to 4 bytes)
		_, ferr = fw.CreateDataset("/o", Int32, []uint64{1<<62 + 1})
	case 16:
		_, ferr = fw.CreateDataset("/o", Int32, []uint64{1<<32 + 1, 1 << 32}) // element count wraps
	case 17:
		_, ferr = fw.CreateDataset("/o", Int32, []uint64{1<<62 + 1}, WithChunkDims([]uint64{1024}))
	case 18:
		// a chunk of 2 GiB: the reader refuses chunks above 1 GiB, and the stored size of a chunk has 32 bits
		_, ferr = fw.CreateDataset("/o", Int32, []uint64{1 << 29}, WithChunkDims([]uint64{1 << 29}))
	case 19:
		_, ferr = fw.CreateDataset("/o", Int32, []uint64{1 << 20, 1 << 20}, WithChunkDims([]uint64{1 << 16, 1 << 16})) // 16 GiB chunk
	}
	vrt.Assert(ferr != nil, "invalid-call-returns-error")

	// the writer stays usable
	b, err := fw.CreateDataset("/g/b", Int32, []uint64{1})
	vrt.AssertNoErr(err, "later-create-ok")
	z := vrt.I32()
	vrt.AssertNoErr(b.Write([]int32{z}), "later-write-ok")
	vrt.AssertNoErr(fw.Close(), "close-ok")
	_ = fw.Close() // any number of times, must not panic

	f, err := Open("c16.h5")
	vrt.AssertNoErr(err, "reopen-ok")
	tree, dup := verifTree(f)
	vrt.Assert(!dup, "no-name-twice")
	want := map[string]bool{"/": true, "/a": true, "/g": true, "/g/b": true}
	for p := range tree {
		q := p
		if len(q) > 1 && q[len(q)-1] == '/' {
			q = q[:len(q)-1]
		}
		vrt.Assert(want[q], "failed-call-left-no-object")
	}
	da := verifFindDataset(f, "/a")
	vrt.Assert(da != nil, "a-present")
	if da != nil {
		v, err := da.Read()
		vrt.AssertNoErr(err, "a-read-ok")
		vrt.Assert(len(v) == 2 && v[0] == float64(x) && v[1] == float64(y), "a-data-unchanged")
		at, err := da.ReadAttribute("k")
		vrt.AssertNoErr(err, "a-attr-read-ok")
		ai, ok := at.(int32)
		vrt.Assert(ok && ai == 5, "a-attr-unchanged")
		list, _ := da.ListAttributes()
		vrt.Assert(len(list) == 1, "a-attr-count-unchanged")
	}
	db := verifFindDataset(f, "/g/b")
	vrt.Assert(db != nil, "b-present")
	if db != nil {
		v, err := db.Read()
		vrt.AssertNoErr(err, "b-read-ok")
		vrt.Assert(len(v) == 1 && v[0] == float64(z), "b-data")
	}
	vrt.Covered("failing-call-compared")
	_ = f.Close()
}

// creation calls on a writer obtained with OpenForWrite (a reopen session): whatever they answer, they do not panic;
// an error leaves the content as it was, a success adds exactly the new object
func VerifH_C16_api_session_creation() {
	fw, err := CreateForWrite("c16s.h5", CreateTruncate, WithSuperblockVersion([]uint8{0, 2}[vrt.Choice(2)]))
	vrt.AssertNoErr(err, "create-ok")
	x := vrt.I32()
	a, err := fw.CreateDataset("/a", Int32, []uint64{1})
	vrt.AssertNoErr(err, "create-a-ok")
	vrt.AssertNoErr(a.Write([]int32{x}), "write-a-ok")
	_, err = fw.CreateGroup("/g")
	vrt.AssertNoErr(err, "create-g-ok")
	vrt.AssertNoErr(fw.Close(), "close-ok")

	s, err := OpenForWrite("c16s.h5", OpenReadWrite)
	vrt.AssertNoErr(err, "session-open-ok")
	want := map[string]bool{"/": true, "/a": true, "/g": true}
	k := vrt.Choice(6)
	var cerr error
	newPath := ""
	switch k {
	case 0:
		newPath = "/g2"
		_, cerr = s.CreateGroup(newPath)
	case 1:
		newPath = "/n"
		var d *DatasetWriter
		d, cerr = s.CreateDataset(newPath, Int32, []uint64{1})
		if cerr == nil {
			cerr = d.Write([]int32{7})
		}
	case 2:
		newPath = "/g/n"
		_, cerr = s.CreateDataset(newPath, Int32, []uint64{1})
	case 3:
		newPath = "/h"
		cerr = s.CreateHardLink(newPath, "/a")
	case 4:
		newPath = "/s"
		cerr = s.CreateSoftLink(newPath, "/a")
	default:
		newPath = "/dg"
		cerr = s.CreateDenseGroup(newPath, map[string]string{"x": "/a"})
	}
	if cerr == nil {
		want[newPath] = true
	}
	vrt.AssertNoErr(s.Close(), "close-ok")
	_ = s.Close()

	f, err := Open("c16s.h5")
	vrt.AssertNoErr(err, "reopen-ok")
	tree, dup := verifTree(f)
	vrt.Assert(!dup, "no-name-twice")
	n := 0
	for p := range tree {
		q := p
		if len(q) > 1 && q[len(q)-1] == '/' {
			q = q[:len(q)-1]
		}
		vrt.Assert(want[q], "failed-call-left-no-object")
		n++
	}
	vrt.Assert(n == len(want), "accepted-creation-is-in-the-file")
	da := verifFindDataset(f, "/a")
	vrt.Assert(da != nil, "a-present")
	if da != nil {
		v, err := da.Read()
		vrt.AssertNoErr(err, "a-read-ok")
		vrt.Assert(len(v) == 1 && v[0] == float64(x), "a-data-unchanged")
	}
	vrt.Covered("failing-call-compared")
	_ = f.Close()
}

// calls on handles whose writer has been closed: an error (never a panic), and the closed file keeps its content
func VerifH_C16_api_closed_handles() {
	fw, err := CreateForWrite("c16c.h5", CreateTruncate, WithSuperblockVersion([]uint8{0, 2}[vrt.Choice(2)]))
	vrt.AssertNoErr(err, "create-ok")
	x := vrt.I32()
	a, err := fw.CreateDataset("/a", Int32, []uint64{1})
	vrt.AssertNoErr(err, "create-a-ok")
	vrt.AssertNoErr(a.Write([]int32{x}), "write-a-ok")
	c, err := fw.CreateDataset("/c", Int32, []uint64{2}, WithChunkDims([]uint64{1}), WithMaxDims([]uint64{Unlimited}))
	vrt.AssertNoErr(err, "create-c-ok")
	vrt.AssertNoErr(c.Write([]int32{1, 2}), "write-c-ok")
	vrt.AssertNoErr(fw.Close(), "close-ok")
	var cerr error
	switch vrt.Choice(9) {
	case 0:
		_, cerr = fw.CreateDataset("/n", Int32, []uint64{1})
	case 1:
		_, cerr = fw.CreateGroup("/g")
	case 2:
		cerr = a.Write([]int32{vrt.I32()})
	case 3:
		cerr = a.WriteAttribute("k", int32(1))
	case 4:
		cerr = c.Resize([]uint64{3})
	case 5:
		cerr = fw.CreateHardLink("/h", "/a")
	case 6:
		cerr = fw.CreateSoftLink("/s", "/a")
	case 7:
		_, cerr = fw.OpenDataset("/a")
	default:
		cerr = a.DeleteAttribute("k")
	}
	vrt.Assert(cerr != nil, "invalid-call-returns-error")
	_ = fw.Close()
	f, err := Open("c16c.h5")
	vrt.AssertNoErr(err, "reopen-ok")
	tree, dup := verifTree(f)
	vrt.Assert(!dup, "no-name-twice")
	want := map[string]bool{"/": true, "/a": true, "/c": true}
	for p := range tree {
		vrt.Assert(want[p], "failed-call-left-no-object")
	}
	da := verifFindDataset(f, "/a")
	vrt.Assert(da != nil, "a-present")
	if da != nil {
		v, err := da.Read()
		vrt.AssertNoErr(err, "a-read-ok")
		vrt.Assert(len(v) == 1 && v[0] == float64(x), "a-data-unchanged")
		list, _ := da.ListAttributes()
		vrt.Assert(len(list) == 0, "a-attr-count-unchanged")
	}
	dc := verifFindDataset(f, "/c")
	vrt.Assert(dc != nil, "b-present")
	if dc != nil {
		v, err := dc.Read()
		vrt.AssertNoErr(err, "b-read-ok")
		vrt.Assert(len(v) == 2 && v[0] == 1 && v[1] == 2, "b-data")
	}
	vrt.Covered("failing-call-compared")
	_ = f.Close()
}

// capacity of a group's name heap: long names are created until one is refused; the refused call leaves nothing
// behind, later calls behave normally (they may be refused too), the reopened tree holds exactly the accepted names
func VerifH_C16_api_name_heap_capacity() {
	vrt.LoopBound(20000)
	fw, err := CreateForWrite("c16h.h5", CreateTruncate, WithSuperblockVersion([]uint8{0, 2}[vrt.Choice(2)]))
	vrt.AssertNoErr(err, "create-ok")
	L := []int{40, 61, 100, 300}[vrt.Choice(4)]
	inGroup := vrt.Bool()
	parent := ""
	want := map[string]bool{"/": true}
	if inGroup {
		_, err := fw.CreateGroup("/p")
		vrt.AssertNoErr(err, "create-g-ok")
		parent = "/p"
		want["/p"] = true
	}
	base := make([]byte, L)
	for i := range base {
		base[i] = 'n'
	}
	refused := 0
	for i := 0; i < 14; i++ {
		base[0], base[1] = byte('a'+i), byte('a'+i)
		p := parent + "/" + string(base)
		var cerr error
		if i%2 == 0 {
			_, cerr = fw.CreateGroup(p)
		} else {
			var d *DatasetWriter
			d, cerr = fw.CreateDataset(p, Int32, []uint64{1})
			if cerr == nil {
				vrt.AssertNoErr(d.Write([]int32{int32(i)}), "later-write-ok")
			}
		}
		if cerr == nil {
			want[p] = true
		} else {
			refused++
		}
	}
	vrt.Assert(refused > 0, "heap-capacity-reached")
	_, serr := fw.CreateGroup(parent + "/z")
	if serr == nil {
		want[parent+"/z"] = true
	}
	vrt.AssertNoErr(fw.Close(), "close-ok")
	f, err := Open("c16h.h5")
	vrt.AssertNoErr(err, "reopen-ok")
	tree, dup := verifTree(f)
	vrt.Assert(!dup, "no-name-twice")
	n := 0
	for p := range tree {
		q := p
		if len(q) > 1 && q[len(q)-1] == '/' {
			q = q[:len(q)-1]
		}
		vrt.Assert(want[q], "failed-call-left-no-object")
		n++
	}
	vrt.Assert(n == len(want), "accepted-creation-is-in-the-file")
	vrt.Covered("failing-call-compared")
	_ = f.Close()
}

// a refused attribute write on a dataset opened in a session (its header cannot grow: a neighbour follows) leaves
// nothing behind: later calls on the same handle behave as if it had not been made, and the file holds the model
func VerifH_C16_api_session_refused_attr() {
	fw, err := CreateForWrite("c16r.h5", CreateTruncate, WithSuperblockVersion([]uint8{0, 2, 3}[vrt.Choice(3)]))
	vrt.AssertNoErr(err, "create-ok")
	a, err := fw.CreateDataset("/a", Int32, []uint64{1})
	vrt.AssertNoErr(err, "create-a-ok")
	vrt.AssertNoErr(a.Write([]int32{1}), "write-a-ok")
	model := map[string]int32{}
	for i, n := range []string{"p0", "p1", "p2"} {
		vrt.AssertNoErr(a.WriteAttribute(n, int32(i)), "attr-ok")
		model[n] = int32(i)
	}
	b, err := fw.CreateDataset("/b", Int32, []uint64{1})
	vrt.AssertNoErr(err, "create-b-ok")
	w := vrt.I32()
	vrt.AssertNoErr(b.Write([]int32{w}), "write-b-ok")
	vrt.AssertNoErr(fw.Close(), "close-ok")

	s, err := OpenForWrite("c16r.h5", OpenReadWrite)
	vrt.AssertNoErr(err, "session-open-ok")
	d, err := s.OpenDataset("/a")
	vrt.AssertNoErr(err, "open-dataset-ok")
	// a new attribute: the header would have to grow over /b
	ferr := d.WriteAttribute("p10", vrt.I32())
	vrt.Assert(ferr != nil, "invalid-call-returns-error")
	// later calls: a same-size replacement fits and must work; a delete of an absent name fails; a second new name is refused again
	v := vrt.I32()
	switch vrt.Choice(3) {
	case 0:
		vrt.AssertNoErr(d.WriteAttribute("p2", v), "later-write-ok")
		model["p2"] = v
	case 1:
		vrt.Assert(d.DeleteAttribute("p10") != nil, "failed-call-left-no-object")
	default:
		if d.WriteAttribute("p8", "str123") == nil {
			// accepted (e.g. by moving the attributes to dense storage): then exactly this one is new
			model["p8"] = 0
		}
	}
	vrt.AssertNoErr(s.Close(), "close-ok")

	f, err := Open("c16r.h5")
	vrt.AssertNoErr(err, "reopen-ok")
	da := verifFindDataset(f, "/a")
	vrt.Assert(da != nil, "a-present")
	if da != nil {
		list, err := da.ListAttributes()
		vrt.AssertNoErr(err, "a-attr-read-ok")
		vrt.Assert(len(list) == len(model), "a-attr-count-unchanged")
		for _, n := range list {
			_, ok := model[n]
			vrt.Assert(ok, "failed-call-left-no-object")
		}
		for n, want := range model {
			if n == "p8" {
				continue
			}
			got, err := da.ReadAttribute(n)
			vrt.AssertNoErr(err, "a-attr-read-ok")
			gi, ok := got.(int32)
			vrt.Assert(ok && gi == want, "a-attr-unchanged")
		}
	}
	db := verifFindDataset(f, "/b")
	vrt.Assert(db != nil, "b-present")
	if db != nil {
		got, err := db.Read()
		vrt.AssertNoErr(err, "b-read-ok")
		vrt.Assert(len(got) == 1 && got[0] == float64(w), "b-data")
	}
	vrt.Covered("failing-call-compared")
	_ = f.Close()
}

// a refused replacement of an EXISTING attribute by a larger value (the header cannot grow in place: /b follows)
// followed, through the same handle, by an accepted change that makes room (delete of another attribute, or a
// same-size replacement): the file holds the previous value of the refused name plus exactly the accepted change.
func VerifH_C16_api_session_refused_upsert() {
	fw, err := CreateForWrite("c16u.h5", CreateTruncate, WithSuperblockVersion([]uint8{0, 2, 3}[vrt.Choice(3)]))
	vrt.AssertNoErr(err, "create-ok")
	a, err := fw.CreateDataset("/a", Int32, []uint64{1})
	vrt.AssertNoErr(err, "create-a-ok")
	vrt.AssertNoErr(a.Write([]int32{1}), "write-a-ok")
	g0, k0 := vrt.I32(), vrt.I32()
	vrt.AssertNoErr(a.WriteAttribute("note", "ab"), "attr-ok")
	vrt.AssertNoErr(a.WriteAttribute("gain", g0), "attr-ok")
	vrt.AssertNoErr(a.WriteAttribute("big", []int32{k0, 2, 3, 4, 5, 6}), "attr-ok")
	b, err := fw.CreateDataset("/b", Int32, []uint64{1})
	vrt.AssertNoErr(err, "create-b-ok")
	vrt.AssertNoErr(b.Write([]int32{9}), "write-b-ok")
	vrt.AssertNoErr(fw.Close(), "close-ok")
	note, gain, hasGain, hasBig := "ab", g0, true, true

	s, err := OpenForWrite("c16u.h5", OpenReadWrite)
	vrt.AssertNoErr(err, "session-open-ok")
	d, err := s.OpenDataset("/a")
	vrt.AssertNoErr(err, "open-dataset-ok")
	// the refused call: an existing name, a value that needs more room than the header has
	var ferr error
	which := vrt.Choice(2)
	if which == 0 {
		ferr = d.WriteAttribute("note", "abcdefghijklmnopqrstuvwxyz0123456789")
		if ferr == nil {
			note = "abcdefghijklmnopqrstuvwxyz0123456789"
		}
	} else {
		ferr = d.WriteAttribute("gain", []int32{10, 20, 30, 40, 50, 60, 70, 80, 90, 100})
		vrt.Assert(ferr != nil, "invalid-call-returns-error")
	}
	vrt.Covered("refused-upsert-made")
	// an accepted later change through the same handle
	g1 := vrt.I32()
	switch vrt.Choice(3) {
	case 0:
		vrt.AssertNoErr(d.DeleteAttribute("big"), "later-delete-ok")
		hasBig = false
	case 1:
		if which == 0 || ferr != nil {
			vrt.AssertNoErr(d.WriteAttribute("gain", g1), "later-write-ok")
			gain = g1
		}
	default:
		if ferr != nil || which == 0 {
			vrt.AssertNoErr(d.DeleteAttribute("gain"), "later-delete-ok")
			hasGain = false
		}
	}
	vrt.AssertNoErr(s.Close(), "close-ok")

	f, err := Open("c16u.h5")
	vrt.AssertNoErr(err, "reopen-ok")
	da := verifFindDataset(f, "/a")
	vrt.Assert(da != nil, "a-present")
	if da != nil {
		list, err := da.ListAttributes()
		vrt.AssertNoErr(err, "a-attr-read-ok")
		want := 1
		if hasGain {
			want++
		}
		if hasBig {
			want++
		}
		vrt.Assert(len(list) == want, "a-attr-count-as-modelled")
		got, err := da.ReadAttribute("note")
		vrt.AssertNoErr(err, "a-attr-read-ok")
		gs, ok := got.(string)
		vrt.Assert(ok && gs == note, "refused-value-not-in-file")
		if hasGain {
			got, err := da.ReadAttribute("gain")
			vrt.AssertNoErr(err, "a-attr-read-ok")
			gi, ok := got.(int32)
			vrt.Assert(ok && gi == gain, "refused-value-not-in-file")
		}
		if hasBig {
			got, err := da.ReadAttribute("big")
			vrt.AssertNoErr(err, "a-attr-read-ok")
			gv, ok := got.([]int32)
			vrt.Assert(ok && len(gv) == 6 && gv[0] == k0 && gv[5] == 6, "a-attr-unchanged")
		}
	}
	db := verifFindDataset(f, "/b")
	vrt.Assert(db != nil, "b-present")
	if db != nil {
		got, err := db.Read()
		vrt.AssertNoErr(err, "b-read-ok")
		vrt.Assert(len(got) == 1 && got[0] == 9, "b-data")
	}
	vrt.Covered("failing-call-compared")
	_ = f.Close()
}

// a refused Resize of a rank-2 chunked dataset that holds data: the requested extent (each dimension forked over
// shrink / keep / grow within / grow beyond the declared maximum {8,4}) is refused exactly when one dimension
// exceeds its maximum, and a refused call leaves extent and every stored element as they were.
func VerifH_C16_api_refused_resize_rank2() {
	fw, err := CreateForWrite("c16z.h5", CreateTruncate)
	vrt.AssertNoErr(err, "create-ok")
	d, err := fw.CreateDataset("/r", Int32, []uint64{4, 4}, WithChunkDims([]uint64{2, 2}), WithMaxDims([]uint64{8, 4}))
	vrt.AssertNoErr(err, "create-dataset-ok")
	data := make([]int32, 16)
	for i := range data {
		data[i] = int32(i + 1)
	}
	data[9] = vrt.I32()
	vrt.AssertNoErr(d.Write(data), "write-ok")
	n0 := []uint64{2, 4, 6, 9}[vrt.Choice(4)]
	n1 := []uint64{2, 4, 5, 6}[vrt.Choice(4)]
	rerr := d.Resize([]uint64{n0, n1})
	beyond := n0 > 8 || n1 > 4
	vrt.Assert((rerr != nil) == beyond, "resize-refused-exactly-beyond-maximum")
	vrt.AssertNoErr(fw.Close(), "close-ok")
	if rerr == nil {
		return // accepted resizes are the subject of C13
	}
	vrt.Covered("refused-resize-made")
	f, err := Open("c16z.h5")
	vrt.AssertNoErr(err, "reopen-ok")
	ds := verifFindDataset(f, "/r")
	vrt.Assert(ds != nil, "dataset-present")
	if ds != nil {
		got, err := ds.Read()
		vrt.AssertNoErr(err, "read-ok")
		vrt.Assert(len(got) == 16, "refused-resize-keeps-extent")
		if len(got) == 16 {
			for i := range data {
				vrt.Assert(got[i] == float64(data[i]), "refused-resize-keeps-data")
			}
		}
	}
	vrt.Covered("failing-call-compared")
	_ = f.Close()
}
