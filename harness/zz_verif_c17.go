//go:build verif

package hdf5

import (
	"os"

	"github.com/scigolib/hdf5/internal/core"

	"github.com/scigolib/hdf5/internal/vrt"
)

type verifDump struct {
	paths []string
	vals  []float64
	attrs []string
	aints []int32 // values of the int32 attributes, in listing order
	errs  int
	// partial reads, six fixed selections per dataset (rank 1: [0], [1..2], [2..7], strided {0,2}; rank 2: row 0,
	// columns 1..2, and columns {0,2} of row 0);
	// nil where the selection was refused or failed
	slices [][]float64
	// per call: what each Read / attribute listing returned for each path (absent when the call failed)
	perVals  map[string][]float64
	perAttrs map[string][]string
	perStrs  map[string][]string // ReadStrings per path
	perRecs  map[string]int      // number of records ReadCompound returned per path
}

// every call that succeeds on the cut file returns what the same call returns on the intact file
func verifComparePerCall(cut, intact verifDump) {
	for p, l := range cut.perAttrs {
		w, ok := intact.perAttrs[p]
		if !ok {
			continue
		}
		vrt.Assert(len(l) == len(w), "attributes-silently-missing")
		if len(l) == len(w) {
			for i := range l {
				vrt.Assert(l[i] == w[i], "attributes-silently-missing")
			}
		}
	}
	for p, l := range cut.perStrs {
		w, ok := intact.perStrs[p]
		if !ok {
			continue
		}
		vrt.Assert(len(l) == len(w), "different-values-after-truncation")
		if len(l) == len(w) {
			for i := range l {
				vrt.Assert(l[i] == w[i], "different-values-after-truncation")
			}
		}
	}
	for p, n := range cut.perRecs {
		if w, ok := intact.perRecs[p]; ok {
			vrt.Assert(n == w, "different-values-after-truncation")
		}
	}
	for p, v := range cut.perVals {
		w, ok := intact.perVals[p]
		if !ok {
			continue
		}
		vrt.Assert(len(v) == len(w), "different-values-after-truncation")
		if len(v) == len(w) {
			for i := range v {
				vrt.Assert(v[i] == w[i], "different-values-after-truncation")
			}
		}
	}
}

func verifHyperOf(ds *Dataset, start, count, stride, block []uint64) []float64 {
	got, err := ds.ReadHyperslab(&HyperslabSelection{Start: start, Count: count, Stride: stride, Block: block})
	if err != nil {
		return nil
	}
	g, _ := got.([]float64)
	return g
}

func verifSliceOf(ds *Dataset, start, count []uint64) []float64 {
	got, err := ds.ReadSlice(start, count)
	if err != nil {
		return nil
	}
	g, _ := got.([]float64)
	return g
}

// whatever a partial read returns on the cut file equals what it returns on the intact one
func verifCompareSlices(cut, intact verifDump) {
	if len(cut.slices) != len(intact.slices) {
		return
	}
	for i := range cut.slices {
		c, w := cut.slices[i], intact.slices[i]
		if c == nil || w == nil {
			continue
		}
		vrt.Assert(len(c) == len(w), "different-values-after-truncation")
		if len(c) == len(w) {
			for k := range c {
				vrt.Assert(c[k] == w[k], "different-values-after-truncation")
			}
		}
	}
}

func verifDumpFile(name string) (d verifDump, openErr error) {
	f, err := Open(name)
	if err != nil {
		return d, err
	}
	d.perVals, d.perAttrs = map[string][]float64{}, map[string][]string{}
	d.perStrs, d.perRecs = map[string][]string{}, map[string]int{}
	f.Walk(func(p string, obj Object) {
		d.paths = append(d.paths, p)
		if g, ok := obj.(*Group); ok {
			if as, err := g.Attributes(); err == nil {
				l := []string{}
				for _, a := range as {
					l = append(l, a.Name)
				}
				d.perAttrs[p] = l
			}
		}
		if ds, ok := obj.(*Dataset); ok {
			v, err := ds.Read()
			if err != nil {
				d.errs++
			} else {
				d.vals = append(d.vals, v...)
				d.perVals[p] = v
			}
			if ss, err := ds.ReadStrings(); err == nil {
				d.perStrs[p] = ss
			}
			if rs, err := ds.ReadCompound(); err == nil {
				d.perRecs[p] = len(rs)
			}
			if it, err := ds.ChunkIterator(); err == nil {
				// chunked datasets: every stored chunk once (at most 8 here)
				for k := 0; k < 8 && it.Next(); k++ {
					_, _ = it.Chunk()
					_ = it.ChunkCoords()
				}
			}
			d.slices = append(d.slices,
				verifSliceOf(ds, []uint64{0}, []uint64{1}),
				verifSliceOf(ds, []uint64{1}, []uint64{2}),
				verifSliceOf(ds, []uint64{2}, []uint64{6}),
				verifSliceOf(ds, []uint64{0, 1}, []uint64{1, 2}),
				verifHyperOf(ds, []uint64{0}, []uint64{2}, []uint64{2}, []uint64{1}),
				verifHyperOf(ds, []uint64{0, 0}, []uint64{1, 2}, []uint64{1, 2}, []uint64{1, 1}))
			l, err := ds.ListAttributes()
			if err != nil {
				d.errs++
			} else {
				d.attrs = append(d.attrs, l...)
				d.perAttrs[p] = append([]string{}, l...)
				for _, an := range l {
					v, err := ds.ReadAttribute(an) // the value decoder runs on whatever the file holds
					if err != nil {
						d.errs++
					} else if x, ok := v.(int32); ok {
						d.aints = append(d.aints, x)
					}
				}
			}
		}
	})
	_ = f.Close()
	return d, nil
}

// C17 E-tier: a library-written file cut at every length L < size (forked): Open/Walk/Read/Attributes either
// return an error or exactly what the intact file gives; never a silently shorter tree, never a panic.
func verifTruncateScript(ver uint8, lo, hi int) { verifTruncateScriptOpt(ver, lo, hi, false) }

// chunked: the file ends with a chunked dataset's chunk index (written by the last Write); lo/hi are then relative to the end
func verifTruncateScriptOpt(ver uint8, lo, hi int, chunked bool) {
	vrt.LoopBound(6000)
	fw, err := CreateForWrite("c17.h5", CreateTruncate, WithSuperblockVersion(ver))
	vrt.AssertNoErr(err, "create-ok")
	if chunked {
		c, err := fw.CreateDataset("/a", Int32, []uint64{4}, WithChunkDims([]uint64{2}))
		vrt.AssertNoErr(err, "create-a-ok")
		vrt.AssertNoErr(c.Write([]int32{vrt.I32(), vrt.I32(), vrt.I32(), vrt.I32()}), "write-a-ok")
	} else {
		a, err := fw.CreateDataset("/a", Int32, []uint64{2})
		vrt.AssertNoErr(err, "create-a-ok")
		vrt.AssertNoErr(a.Write([]int32{vrt.I32(), vrt.I32()}), "write-a-ok")
		vrt.AssertNoErr(a.WriteAttribute("k", int32(5)), "attr-ok")
	}
	vrt.AssertNoErr(fw.Close(), "close-ok")
	intact, err := verifDumpFile("c17.h5")
	vrt.AssertNoErr(err, "intact-open-ok")
	vrt.Assert(intact.errs == 0, "intact-reads-ok")
	st, err := os.Stat("c17.h5")
	vrt.AssertNoErr(err, "stat-ok")
	size := int(st.Size())
	if chunked {
		lo, hi = size-hi, size-lo // counted from the end of the file
		if lo < 0 {
			lo = 0
		}
	}
	if hi > size {
		hi = size
	}
	vrt.Assume(lo < hi)
	L := lo + vrt.Choice(hi-lo)
	vrt.AssertNoErr(os.Truncate("c17.h5", int64(L)), "truncate-ok")
	cut, err := verifDumpFile("c17.h5")
	if err != nil {
		vrt.Covered("truncation-reported")
		return
	}
	// no error from Open: everything returned without error must equal the intact answer
	vrt.Assert(len(cut.paths) == len(intact.paths) || cut.errs > 0, "members-silently-missing")
	verifComparePerCall(cut, intact)
	if cut.errs == 0 {
		vrt.Assert(len(cut.vals) == len(intact.vals), "values-silently-missing")
		if len(cut.vals) == len(intact.vals) {
			for i := range cut.vals {
				vrt.Assert(cut.vals[i] == intact.vals[i], "different-values-after-truncation")
			}
		}
		vrt.Assert(len(cut.attrs) == len(intact.attrs), "attributes-silently-missing")
		if len(cut.aints) == len(intact.aints) {
			for i := range cut.aints {
				vrt.Assert(cut.aints[i] == intact.aints[i], "different-values-after-truncation")
			}
		}
	}
}

func VerifH_C17_api_truncate_v2_head()         { verifTruncateScript(2, 0, 160) }
func VerifH_C17_api_truncate_v2_tail()         { verifTruncateScript(2, 2000, 100000) }
func VerifH_C17_api_truncate_v2_mid_thorough() { verifTruncateScript(2, 160, 2000) }
func VerifH_C17_api_truncate_v0_thorough()     { verifTruncateScript(0, 0, 100000) }

// the last 130 bytes of a file that ends with a chunk index node
func VerifH_C17_api_truncate_chunk_index_tail() { verifTruncateScriptOpt(2, 0, 130, true) }

// dense attributes: a dataset with 9 attributes (fractal heap + name index); the file is cut at lengths forked around
// the dense structures' addresses (inside the heap header, the direct block, the index header and its leaf)
func VerifH_C17_api_truncate_dense() {
	vrt.LoopBound(200000)
	fw, err := CreateForWrite("c17d.h5", CreateTruncate)
	vrt.AssertNoErr(err, "create-ok")
	a, err := fw.CreateDataset("/a", Int32, []uint64{1})
	vrt.AssertNoErr(err, "create-a-ok")
	vrt.AssertNoErr(a.Write([]int32{vrt.I32()}), "write-a-ok")
	names := []string{"n0", "n1", "n2", "n3", "n4", "n5", "n6", "n7", "n8"}
	for i, n := range names {
		vrt.AssertNoErr(a.WriteAttribute(n, int32(i)), "attr-ok")
	}
	addr := a.address
	vrt.AssertNoErr(fw.Close(), "close-ok")
	intact, err := verifDumpFile("c17d.h5")
	vrt.AssertNoErr(err, "intact-open-ok")
	vrt.Assert(intact.errs == 0 && len(intact.attrs) == 9, "intact-reads-ok")
	// locate the dense structures through the library's own reader
	f, err := Open("c17d.h5")
	vrt.AssertNoErr(err, "intact-open-ok")
	oh, err := core.ReadObjectHeader(f.osFile, addr, f.sb)
	vrt.AssertNoErr(err, "header-read-ok")
	var heapAddr, btreeAddr uint64
	for _, m := range oh.Messages {
		if m.Type == core.MsgAttributeInfo {
			ai, err := core.ParseAttributeInfoMessage(m.Data, f.sb)
			vrt.AssertNoErr(err, "attrinfo-parse-ok")
			heapAddr, btreeAddr = ai.FractalHeapAddr, ai.BTreeNameIndexAddr
		}
	}
	_ = f.Close()
	vrt.Assert(heapAddr != 0 && btreeAddr != 0, "dense-storage-in-use")
	st, _ := os.Stat("c17d.h5")
	size := int(st.Size())
	offs := []int{1, 9, 12, 21, 40, 90, 140, 200, 4000}
	var base int
	switch vrt.Choice(3) {
	case 0:
		base = int(heapAddr)
	case 1:
		base = int(btreeAddr)
	default:
		base = size - 4100 // inside / at the end of the last structure
	}
	L := base + offs[vrt.Choice(len(offs))]
	vrt.Assume(L > 0 && L < size)
	vrt.AssertNoErr(os.Truncate("c17d.h5", int64(L)), "truncate-ok")
	cut, err := verifDumpFile("c17d.h5")
	vrt.Covered("dense-cut-dumped")
	if err != nil {
		return
	}
	vrt.Assert(len(cut.paths) == len(intact.paths) || cut.errs > 0, "members-silently-missing")
	verifComparePerCall(cut, intact)
	if cut.errs == 0 {
		vrt.Assert(len(cut.attrs) == len(intact.attrs), "attributes-silently-missing")
		if len(cut.aints) == len(intact.aints) {
			for i := range cut.aints {
				vrt.Assert(cut.aints[i] == intact.aints[i], "different-values-after-truncation")
			}
		}
		vrt.Assert(len(cut.vals) == len(intact.vals), "values-silently-missing")
	}
}

// verifDenseFile builds a file with one dataset carrying 9 attributes (dense storage) and returns the dataset's header
// address and the addresses of the fractal heap and the name index.
func verifDenseFile(name string) (hdr, heap, btree uint64) {
	fw, err := CreateForWrite(name, CreateTruncate)
	vrt.AssertNoErr(err, "create-ok")
	a, err := fw.CreateDataset("/a", Int32, []uint64{1})
	vrt.AssertNoErr(err, "create-a-ok")
	vrt.AssertNoErr(a.Write([]int32{7}), "write-a-ok")
	for i, n := range []string{"n0", "n1", "n2", "n3", "n4", "n5", "n6", "n7", "n8"} {
		vrt.AssertNoErr(a.WriteAttribute(n, int32(i)), "attr-ok")
	}
	hdr = a.address
	vrt.AssertNoErr(fw.Close(), "close-ok")
	f, err := Open(name)
	vrt.AssertNoErr(err, "intact-open-ok")
	oh, err := core.ReadObjectHeader(f.osFile, hdr, f.sb)
	vrt.AssertNoErr(err, "header-read-ok")
	for _, m := range oh.Messages {
		if m.Type == core.MsgAttributeInfo {
			ai, err := core.ParseAttributeInfoMessage(m.Data, f.sb)
			vrt.AssertNoErr(err, "attrinfo-parse-ok")
			heap, btree = ai.FractalHeapAddr, ai.BTreeNameIndexAddr
		}
	}
	_ = f.Close()
	vrt.Assert(heap != 0 && btree != 0, "dense-storage-in-use")
	return hdr, heap, btree
}

// corpus files written by the reference library keep the raw data of their contiguous datasets at the tail: the last
// `sym` bytes are replaced by arbitrary bytes (the stored values), the file is cut at a length forked over the last
// `span` bytes; whatever is then returned without error equals what the intact file gives
func verifCorpusCut(rel string, sym, span int) {
	vrt.LoopBound(200000)
	raw := vrt.Corpus(rel)
	nb := vrt.Bytes(sym)
	copy(raw[len(raw)-sym:], nb)
	vrt.AssertNoErr(os.WriteFile("c17c.h5", raw, 0o644), "write-ok")
	intact, err := verifDumpFile("c17c.h5")
	vrt.AssertNoErr(err, "intact-open-ok")
	L := len(raw) - 1 - vrt.Choice(span)
	vrt.AssertNoErr(os.Truncate("c17c.h5", int64(L)), "truncate-ok")
	cut, err := verifDumpFile("c17c.h5")
	if err != nil {
		return
	}
	vrt.Assert(len(cut.paths) == len(intact.paths) || cut.errs > 0, "members-silently-missing")
	verifComparePerCall(cut, intact)
	if len(cut.paths) == len(intact.paths) {
		verifCompareSlices(cut, intact)
	}
	if cut.errs == 0 && intact.errs == 0 {
		vrt.Assert(len(cut.vals) == len(intact.vals), "values-silently-missing")
		if len(cut.vals) == len(intact.vals) {
			for i := range cut.vals {
				vrt.Assert(cut.vals[i] == intact.vals[i], "different-values-after-truncation")
			}
		}
	}
	vrt.Covered("cut-compared")
}

func VerifH_C17_api_corpus_cut_with_groups() { verifCorpusCut("testdata/with_groups.h5", 8, 80) }
func VerifH_C17_api_corpus_cut_multiple()    { verifCorpusCut("testdata/multiple_datasets.h5", 8, 80) }
func VerifH_C17_api_corpus_cut_matrix()      { verifCorpusCut("testdata/matrix_2x3.h5", 8, 80) }
func VerifH_C17_api_corpus_cut_contiguous()  { verifCorpusCut("testdata/simple_contiguous.h5", 8, 96) }

// the same dense-attribute file (its name index is the last structure of the file) cut at every one of its last
// 64 lengths (256 in the thorough tier): an error, or all 9 attributes with their values
func VerifH_C17_api_truncate_dense_tail() {
	vrt.LoopBound(200000)
	verifDenseFile("c17e.h5")
	intact, err := verifDumpFile("c17e.h5")
	vrt.AssertNoErr(err, "intact-open-ok")
	vrt.Assert(intact.errs == 0 && len(intact.attrs) == 9, "intact-reads-ok")
	st, _ := os.Stat("c17e.h5")
	size := int(st.Size())
	span := 64
	if vrt.Thorough() {
		span = 256
	}
	L := size - 1 - vrt.Choice(span)
	vrt.AssertNoErr(os.Truncate("c17e.h5", int64(L)), "truncate-ok")
	cut, err := verifDumpFile("c17e.h5")
	vrt.Covered("dense-tail-cut-dumped")
	if err != nil {
		return
	}
	vrt.Assert(len(cut.paths) == len(intact.paths) || cut.errs > 0, "members-silently-missing")
	verifComparePerCall(cut, intact)
	if cut.errs == 0 {
		vrt.Assert(len(cut.attrs) == len(intact.attrs), "attributes-silently-missing")
		if len(cut.aints) == len(intact.aints) {
			for i := range cut.aints {
				vrt.Assert(cut.aints[i] == intact.aints[i], "different-values-after-truncation")
			}
		}
		vrt.Assert(len(cut.vals) == len(intact.vals), "values-silently-missing")
	}
}

// reference-library corpus files cut at a forked length anywhere in a window (the whole file in the thorough tier):
// the tree has all its members or Open fails, and every Read / attribute listing that succeeds returns what it
// returns on the intact file (per call, not per file)
func verifCorpusSweep(rel string, lo, hi int) {
	vrt.LoopBound(200000)
	raw := vrt.Corpus(rel)
	vrt.AssertNoErr(os.WriteFile("c17w.h5", raw, 0o644), "write-ok")
	intact, err := verifDumpFile("c17w.h5")
	vrt.AssertNoErr(err, "intact-open-ok")
	if hi > len(raw) {
		hi = len(raw)
	}
	L := lo + vrt.Choice(hi-lo)
	vrt.AssertNoErr(os.Truncate("c17w.h5", int64(L)), "truncate-ok")
	cut, err := verifDumpFile("c17w.h5")
	vrt.Covered("corpus-cut-dumped")
	if err != nil {
		return
	}
	vrt.Assert(len(cut.paths) == len(intact.paths), "members-silently-missing")
	verifComparePerCall(cut, intact)
	if len(cut.paths) == len(intact.paths) {
		verifCompareSlices(cut, intact)
	}
}

func VerifH_C17_api_corpus_sweep_with_groups() {
	verifCorpusSweep("testdata/with_groups.h5", 1225, 1289)
}
func VerifH_C17_api_corpus_sweep_v0() { verifCorpusSweep("testdata/v0.h5", 1056, 1120) }
func VerifH_C17_api_corpus_sweep_with_attributes() {
	verifCorpusSweep("testdata/with_attributes.h5", 8800, 8864)
}

// the last 96 lengths of the same file cut into the attribute messages of /group1: known finding (an attribute
// message that cannot be decoded is left out of the list)
func VerifH_C17_api_corpus_sweep_with_attributes_tail() {
	verifCorpusSweep("testdata/with_attributes.h5", 8864, 8960)
}
func VerifH_C17_api_corpus_sweep_with_groups_thorough() {
	verifCorpusSweep("testdata/with_groups.h5", 1, 1<<30)
}
func VerifH_C17_api_corpus_sweep_v0_thorough() { verifCorpusSweep("testdata/v0.h5", 1, 1<<30) }
func VerifH_C17_api_corpus_sweep_test_attributes_thorough() {
	verifCorpusSweep("testdata/test_attributes.h5", 1, 1<<30)
}
func VerifH_C17_api_corpus_sweep_with_attributes_thorough() {
	verifCorpusSweep("testdata/with_attributes.h5", 6000, 8864)
}

func VerifH_C17_api_corpus_sweep_strings_thorough() {
	verifCorpusSweep("testdata/string_test.h5", 1, 1<<30)
}
func VerifH_C17_api_corpus_sweep_compound_thorough() {
	verifCorpusSweep("testdata/compound_test.h5", 1, 1<<30)
}
func VerifH_C17_api_corpus_sweep_chunked3d_thorough() {
	verifCorpusSweep("testdata/test_3d_chunked.h5", 1, 1<<30)
}
func VerifH_C17_api_corpus_sweep_types_thorough() {
	verifCorpusSweep("testdata/various_types.h5", 1, 1<<30)
}
