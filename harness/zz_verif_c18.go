//go:build verif

package hdf5

import (
	"fmt"
	"sync"
	"time"

	"github.com/scigolib/hdf5/internal/vrt"
)

func verifBuildPoolFile(name string, ver uint8, seed int32) {
	fw, err := CreateForWrite(name, CreateTruncate, WithSuperblockVersion(ver))
	vrt.AssertNoErr(err, "create-ok")
	_, err = fw.CreateGroup("/g")
	vrt.AssertNoErr(err, "group-ok")
	d, err := fw.CreateDataset("/g/d", Int32, []uint64{2})
	vrt.AssertNoErr(err, "create-dataset-ok")
	vrt.AssertNoErr(d.Write([]int32{seed, seed + 1}), "write-ok")
	e, err := fw.CreateDataset("/e", Int32, []uint64{1})
	vrt.AssertNoErr(err, "create-dataset-ok")
	vrt.AssertNoErr(e.Write([]int32{seed + 2}), "write-ok")
	vrt.AssertNoErr(e.WriteAttribute("k", seed+3), "attr-ok")
	vrt.AssertNoErr(fw.Close(), "close-ok")
}

// C18 (a): independent read handles share only the scratch-buffer pool. The engine's pool model flags every access to
// a buffer after it was returned to the pool (label use-after-release) and the results of two handles used alternately
// must equal the results of each handle used alone (no state leaks through the pool).
func VerifH_C18_pool_independent_handles() {
	vrt.LoopBound(6000)
	x, y := vrt.I32(), vrt.I32()
	ver := []uint8{0, 2}[vrt.Choice(2)]
	verifBuildPoolFile("c18a.h5", ver, x)
	verifBuildPoolFile("c18b.h5", ver, y)
	aloneA, err := verifDumpFile("c18a.h5")
	vrt.AssertNoErr(err, "open-ok")
	aloneB, err := verifDumpFile("c18b.h5")
	vrt.AssertNoErr(err, "open-ok")
	// alternate use of two handles
	fa, err := Open("c18a.h5")
	vrt.AssertNoErr(err, "open-ok")
	fb, err := Open("c18b.h5")
	vrt.AssertNoErr(err, "open-ok")
	var va, vb []float64
	var pa, pb int
	fa.Walk(func(p string, o Object) {
		pa++
		if d, ok := o.(*Dataset); ok {
			v, err := d.Read()
			if err == nil {
				va = append(va, v...)
			}
			// the other handle works in between
			fb.Walk(func(q string, o2 Object) {
				if d2, ok := o2.(*Dataset); ok {
					_, _ = d2.Read()
					_, _ = d2.ListAttributes()
				}
			})
		}
	})
	fb.Walk(func(p string, o Object) {
		pb++
		if d, ok := o.(*Dataset); ok {
			v, err := d.Read()
			if err == nil {
				vb = append(vb, v...)
			}
		}
	})
	vrt.Assert(pa == len(aloneA.paths) && pb == len(aloneB.paths), "interleaved-handles-same-members")
	vrt.Assert(len(va) == len(aloneA.vals) && len(vb) == len(aloneB.vals), "interleaved-handles-same-value-count")
	if len(va) == len(aloneA.vals) {
		for i := range va {
			vrt.Assert(va[i] == aloneA.vals[i], "interleaved-handles-same-values")
		}
	}
	if len(vb) == len(aloneB.vals) {
		for i := range vb {
			vrt.Assert(vb[i] == aloneB.vals[i], "interleaved-handles-same-values")
		}
	}
	vrt.Covered("handles-compared")
	_ = fa.Close()
	_ = fb.Close()
}

// VerifN_C18_pool_independent_handles is the native concurrent replay driver for a pool-buffer finding of the harness of
// the same name: independent handles on separate goroutines, run under the race detector by the checker. It returns
// descriptions of walks that differ from the sequential result.
func VerifN_C18_pool_independent_handles() []string {
	var files []string
	var want [][]float64
	for i, ver := range []uint8{0, 2, 0, 2} {
		n := fmt.Sprintf("c18n%d.h5", i)
		verifBuildPoolFile(n, ver, int32(100+i))
		d, err := verifDumpFile(n)
		if err != nil {
			return []string{"sequential dump failed: " + err.Error()}
		}
		files = append(files, n)
		want = append(want, d.vals)
	}
	var mu sync.Mutex
	var diffs []string
	var wg sync.WaitGroup
	deadline := time.Now().Add(3 * time.Second)
	for w := 0; w < 32; w++ {
		wg.Add(1)
		go func(w int) {
			defer wg.Done()
			for i := 0; time.Now().Before(deadline); i++ {
				k := (w + i) % len(files)
				d, err := verifDumpFile(files[k])
				bad := err != nil || len(d.vals) != len(want[k])
				if !bad {
					for j := range d.vals {
						if d.vals[j] != want[k][j] {
							bad = true
						}
					}
				}
				if bad {
					mu.Lock()
					if len(diffs) < 3 {
						diffs = append(diffs, fmt.Sprintf("concurrent walk of %s differs from the sequential one (err=%v)", files[k], err))
					}
					mu.Unlock()
					return
				}
			}
		}(w)
	}
	wg.Wait()
	return diffs
}
