//go:build verif

package hdf5

import (
	"os"
	"time"

	"github.com/scigolib/hdf5/internal/vrt"
)

// verifConfigHistory runs one attribute history (9 writes into dense storage, then symbolic delete/upsert operations)
// under the given options and returns the file bytes.
func verifConfigHistory(name string, ops []int, vals []int32, opts ...interface{}) []byte {
	all := append([]interface{}{WithSuperblockVersion(2)}, opts...)
	fw, err := CreateForWrite(name, CreateTruncate, all...)
	vrt.AssertNoErr(err, "create-ok")
	ds, err := fw.CreateDataset("/d", Int32, []uint64{1})
	vrt.AssertNoErr(err, "create-dataset-ok")
	vrt.AssertNoErr(ds.Write([]int32{7}), "write-ok")
	names := []string{"a0", "a1", "a2", "a3", "a4", "a5", "a6", "a7", "a8", "a9"}
	for i := 0; i < 9; i++ {
		vrt.AssertNoErr(ds.WriteAttribute(names[i], int32(i)), "prefix-attr-ok")
	}
	for k, op := range ops {
		switch op {
		case 0:
			_ = ds.DeleteAttribute(names[(k+int(vals[k]&7))%9]) // any of the nine: incl. the record with the largest hash
		case 1:
			_ = ds.WriteAttribute(names[k], vals[k])
		case 2:
			_ = ds.WriteAttribute(names[9], vals[k])
		}
	}
	vrt.AssertNoErr(fw.Close(), "close-ok")
	b, err := os.ReadFile(name)
	vrt.AssertNoErr(err, "raw-read-ok")
	return b
}

// C19 E-tier: the same history under the default configuration and under another rebalancing configuration
// gives byte-identical files (hence identical content after reopen).
func verifConfigsScript(nops int, variant int) {
	vrt.LoopBound(200000)
	ops := make([]int, nops)
	vals := make([]int32, nops)
	for i := range ops {
		ops[i] = vrt.Choice(3)
		vals[i] = vrt.I32()
		if ops[i] == 0 {
			vals[i] = int32(vrt.Choice(8)) // which name is deleted (forked)
		}
	}
	ref := verifConfigHistory("c19a.h5", ops, vals)
	var other []byte
	switch variant {
	case 0:
		other = verifConfigHistory("c19b.h5", ops, vals, WithBTreeRebalancing(false))
	case 1:
		other = verifConfigHistory("c19b.h5", ops, vals, WithLazyRebalancing(LazyThreshold(0.05), LazyMaxDelay(time.Nanosecond), LazyBatchSize(1)))
	case 2:
		other = verifConfigHistory("c19b.h5", ops, vals, WithLazyRebalancing())
	case 3:
		// (in schedule mode: a background goroutine started by the option would be run and would have to end by Close)
		other = verifConfigHistory("c19b.h5", ops, vals, WithLazyRebalancing(), WithIncrementalRebalancing(IncrementalInterval(time.Microsecond), IncrementalBudget(time.Microsecond)))
		vrt.AssertNoGoroutines("close-stops-background-work")
	case 4:
		other = verifConfigHistory("c19b.h5", ops, vals, WithSmartRebalancing(SmartAutoDetect(true), SmartAutoSwitch(true)))
		vrt.AssertNoGoroutines("close-stops-background-work")
	}
	vrt.Assert(len(ref) == len(other), "config-same-file-size")
	if len(ref) == len(other) {
		same := true
		for i := range ref {
			if ref[i] != other[i] {
				same = false
			}
		}
		vrt.Assert(same, "config-byte-identical-content")
	}
	vrt.Covered("configs-compared")
}

// every attribute of a dense object deleted one after the other (the index shrinks to one record, then to none), then
// two new ones: default configuration vs each other configuration, byte-identical files
func verifConfigDeleteAll(variant int) {
	vrt.LoopBound(200000)
	hist := func(name string, order int, v1, v2 int32, opts ...interface{}) []byte {
		all := append([]interface{}{WithSuperblockVersion(2)}, opts...)
		fw, err := CreateForWrite(name, CreateTruncate, all...)
		vrt.AssertNoErr(err, "create-ok")
		ds, err := fw.CreateDataset("/d", Int32, []uint64{1})
		vrt.AssertNoErr(err, "create-dataset-ok")
		vrt.AssertNoErr(ds.Write([]int32{7}), "write-ok")
		names := []string{"a0", "a1", "a2", "a3", "a4", "a5", "a6", "a7", "a8"}
		for i, n := range names {
			vrt.AssertNoErr(ds.WriteAttribute(n, int32(i)), "prefix-attr-ok")
		}
		for i := range names {
			k := i
			if order == 1 {
				k = len(names) - 1 - i
			} else if order == 2 {
				k = (i*4 + 3) % 9
			}
			vrt.AssertNoErr(ds.DeleteAttribute(names[k]), "delete-present-ok")
		}
		vrt.AssertNoErr(ds.WriteAttribute("after_a", v1), "attr-after-ok")
		vrt.AssertNoErr(ds.WriteAttribute("after_b", v2), "attr-after-ok")
		vrt.AssertNoErr(fw.Close(), "close-ok")
		b, err := os.ReadFile(name)
		vrt.AssertNoErr(err, "raw-read-ok")
		return b
	}
	order := vrt.Choice(3)
	v1, v2 := vrt.I32(), vrt.I32()
	ref := hist("c19a.h5", order, v1, v2)
	var other []byte
	switch variant {
	case 0:
		other = hist("c19b.h5", order, v1, v2, WithBTreeRebalancing(false))
	case 1:
		other = hist("c19b.h5", order, v1, v2, WithLazyRebalancing(LazyThreshold(0.05), LazyMaxDelay(time.Nanosecond), LazyBatchSize(1)))
	default:
		other = hist("c19b.h5", order, v1, v2, WithBTreeRebalancing(false), WithLazyRebalancing())
	}
	vrt.Assert(len(ref) == len(other), "config-same-file-size")
	if len(ref) == len(other) {
		same := true
		for i := range ref {
			if ref[i] != other[i] {
				same = false
			}
		}
		vrt.Assert(same, "config-byte-identical-content")
	}
	vrt.Covered("configs-compared")
}

func VerifH_C19_api_config_delete_all_norebalance() { verifConfigDeleteAll(0) }
func VerifH_C19_api_config_delete_all_lazy() { verifConfigDeleteAll(1) }
func VerifH_C19_api_config_delete_all_both() { verifConfigDeleteAll(2) }

func VerifH_C19_api_config_norebalance() { verifConfigsScript(2, 0) }
func VerifH_C19_api_config_lazy_eager() { verifConfigsScript(2, 1) }
func VerifH_C19_api_config_lazy_default() { verifConfigsScript(2, 2) }
func VerifH_C19_api_config_incremental_sched() { verifConfigsScript(2, 3) }
func VerifH_C19_api_config_smart_sched() { verifConfigsScript(2, 4) }
