# table consumed by tools_gen_manifest.py
CHECKS.update({
 "C20": {"text": "bfloat16: every obligation is decided by z3 over all 2^32 float32 bit patterns / all 65,536 codes (one symbolic input, no sampling) on the SSA of the real conversion functions.",
         "note": "Trusts go/ssa, the executor's translation (validated per path against the real build), z3. Reference = IEEE RNE narrowing written on bit patterns in the harness."},
 "C11": {"text": "Encoder/decoder pairs executed symbolically: the value of the real struct is symbolic, the decoder's result is compared field by field; bounded by the ranks/lengths forked in the harness.",
         "note": "Bounds per harness (rank<=4 etc.) stated in /verif/harness; outside them nothing is claimed."},
})
NA.update({
 "C06": "quantifies over a fixed concrete corpus against shipped h5dump text: nothing to make symbolic; differential testing is a different technique family (DESIGN.md §3 C06)",
})
for k in ["C01","C02","C03","C04","C05","C07","C08","C09","C10","C12","C13","C14","C15","C16","C17","C18","C19"]:
    if k not in CHECKS:
        NA[k] = "check under construction in this session (engine exists, harness not yet registered); will be claimed once it runs clean on the unchanged tree"
