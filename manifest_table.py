# table consumed by tools_gen_manifest.py
NOTE = ("Trusted base: go/ssa (x/tools v0.50.0) as the semantics of /repo's working tree; the executor's translation, validated on every run by "
        "re-executing path models on the real build (traces_validated_against_impl); z3 4.8.12. Environment stubs (in-memory files, LIFO sync.Pool, "
        "fmt/errors, reflect, math contracts) are listed in the evidence. Bounds (lengths, ranks, operation counts, loop unwinding) are in the harness "
        "sources under /verif/harness and in DESIGN.md; nothing outside them is claimed. Open known findings are listed in known_findings.json.")
def C(text):
    return {"text": text, "note": NOTE}
CHECKS.update({
 "C01": C("Public-API scripts (CreateForWrite, CreateDataset, Write, Close, Open, Walk, Read/ReadStrings) are executed symbolically end to end on an in-memory file: every element bit pattern is a solver variable, superblock version / rank / extents / chunk extents are forked within small bounds; read-back equality is decided by z3 (or folded by the bit-slice normal form)."),
 "C02": C("Attribute histories (prefix of concrete writes to sit in compact, threshold or dense storage, then symbolic upsert/delete operations over present and absent names and four value kinds) through the public API, reopen, comparison with a model map; values symbolic."),
 "C03": C("Creation histories over a small path alphabet (groups, datasets, hard links; duplicates and missing parents) through the public API, reopen, Walk == model tree; which operation comes next is forked, payloads symbolic."),
 "C04": C("Two datasets plus symbolic operations aimed at one of them (attributes, rewrite, hard link, new sibling); after reopen every object's data and attributes equal its own model; all data values symbolic."),
 "C05": C("After a symbolic creation history the allocator's blocks are pairwise disjoint and inside the file, nothing is written beyond allocated space, and the end-of-file address stored in the superblock equals the allocated end; plus allocator step obligations over 64-bit symbolic sizes. Conformance to the HDF5 specification as judged by an independent decoder is outside the claim (DESIGN.md C05)."),
 "C07": C("Each message parser is executed on an arbitrary buffer (length forked up to N, every byte symbolic); implicit obligations (index/slice bounds, nil, division, explicit panic, allocation governed by an unchecked size field) are discharged by z3 on every path."),
 "C08": C("Shuffle, Fletcher-32 and LZF encoders against both decoders (writer-side Remove and the reader-side pipeline) and the pipeline message encoder against the reader's parser, payload bytes symbolic within small lengths; deflate/bzip2 are not modelled (stdlib compress/*)."),
 "C09": C("Hyperslab and ReadSlice results compared with the same selection of the full Read on contiguous and chunked float64 datasets (dims, counts, blocks, starts, strides forked small; element values symbolic; ReadSlice bounds with full 64-bit symbolic start/count)."),
 "C10": C("Create, close, then OpenForWrite/OpenDataset sessions with symbolic attribute operations (or none), reopen: content equals previous content plus the modification; a session without modification leaves the file bytes identical (compared term by term)."),
 "C11": C("Encoder/decoder pairs executed symbolically: the value of the real struct is symbolic, the decoder's result is compared field by field; bounded by the ranks/lengths forked in the harness."),
 "C12": C("Variable-length string / int32-sequence datasets through the public API: stored datatype is recognised as variable-length of the written base type; values read back equal or the read fails; plus global-heap collection obligations."),
 "C13": C("Resizable chunked dataset: Resize within/beyond max dims accepted/rejected, optional rewrite, reopen: last requested shape, retained values kept, new space zero; element values symbolic, sizes forked small."),
 "C14": C("jenkinsHash equals lookup3 for every byte string of length 0..32 (0..64 thorough; bytes symbolic, one obligation per length); B-tree v2 one-step harness from API-built pre-states (capacity, fill, insertion order forked; heap ids symbolic) incl. the three delete variants and write/load round trip."),
 "C15": C("Fractal heap one-step harness (block size, object sizes forked; bytes symbolic): insert/overwrite/delete/get against a model, counters, failed insert changes nothing, write/load round trip through both readers."),
 "C16": C("A valid API script with one failing call (nine kinds, forked) inserted: the call returns an error, later calls work, Close twice, reopened content equals the model that ignores the failed call."),
 "C17": C("A library-written file cut at every length in the forked range: Open/Walk/Read/Attributes return an error or exactly the intact answer; element values symbolic."),
 "C19": C("Selector: one inductive step from an arbitrary stability memory with arbitrary float64 features (all bit patterns), any validated constraints: allowed-modes gate, confidence range and fallback, stability period. Configurations: the same attribute history under default / no-rebalancing / lazy configurations gives byte-identical files."),
 "C20": C("bfloat16: all 2^32 float32 patterns / all 65,536 codes decided by z3 from one symbolic input. FP8: exponent forked (all 256 values across harnesses), sign and mantissa symbolic, result code enumerated by the solver; nearest/ties/NaN obligations against the decoder's own table."),
})
NA.update({
 "C06": "quantifies over a fixed concrete corpus against shipped h5dump text: nothing to make symbolic; differential testing is a different technique family (DESIGN.md C06)",
 "C18": "schedule-as-symbolic-variable checker (trace mode) not finished in this session; see DESIGN.md C18 for what exists",
})
