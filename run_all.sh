#!/bin/bash
# development helper: run every registered check of a tier, one after the other
tier=${1:-quick}
for p in C01 C02 C03 C04 C05 C07 C08 C09 C10 C11 C12 C13 C14 C15 C16 C17 C18 C19 C20; do
  /usr/bin/time -f "$p wall=%es" /verif/bin/hv check $p --tier $tier > /tmp/check_$p.log 2>&1
  echo "$p exit=$? $(tail -1 /tmp/check_$p.log)"
done
