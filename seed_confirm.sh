#!/bin/bash
# usage: seed_confirm.sh <workdir-of-agent> <patch-file> <demo-test-file> <go test args for the demo>
# Confirms a seeded change in a fresh scratch worktree of /repo: applies, builds, whole suite passes,
# demo fails with the change and passes without it. Prints CONFIRMED or the reason it is not.
set -u
export PATH=/opt/veriftools/go1.26.8/bin:$PATH GOTOOLCHAIN=local GOFLAGS=-mod=mod GOPROXY=off GOSUMDB=off
patch=$1; demo=$2; shift 2
scratch=$(mktemp -d /tmp/seedchk.XXXX)
git -C /repo worktree add -q --detach $scratch HEAD || exit 2
cleanup() { git -C /repo worktree remove --force $scratch >/dev/null 2>&1; rm -rf $scratch; }
trap cleanup EXIT
cd $scratch
if ! git apply --check $patch 2>/dev/null; then echo "NOT-CONFIRMED: patch does not apply to current HEAD"; exit 1; fi
git apply $patch
if ! go build ./... 2>/tmp/seed_build.log; then echo "NOT-CONFIRMED: build fails"; exit 1; fi
if ! go test -vet=off -count=1 ./... >/tmp/seed_suite.log 2>&1; then echo "NOT-CONFIRMED: existing suite fails with the change"; grep -E "^(--- FAIL|FAIL)" /tmp/seed_suite.log | head -5; exit 1; fi
reldir=$(dirname "$demo")
cp "$1" "$scratch/$demo" 2>/dev/null
shift
if go test -vet=off -count=1 "$@" >/tmp/seed_demo_with.log 2>&1; then echo "NOT-CONFIRMED: demo passes WITH the change"; exit 1; fi
git apply -R $patch
if ! go test -vet=off -count=1 "$@" >/tmp/seed_demo_without.log 2>&1; then echo "NOT-CONFIRMED: demo fails WITHOUT the change"; tail -5 /tmp/seed_demo_without.log; exit 1; fi
echo CONFIRMED
