#!/bin/bash
# usage: seed_run.sh <name> <patch> <PROP> [extra hv args]   (development: runs a check against a scratch worktree with the patch applied)
name=$1; patch=$2; prop=$3; shift 3
d=/tmp/seedrun/$name
mkdir -p /tmp/seedrun
git -C /repo worktree remove --force $d >/dev/null 2>&1; rm -rf $d
git -C /repo worktree add -q --detach $d HEAD || exit 2
git -C $d apply $patch || { echo "patch does not apply"; exit 2; }
VERIF_EVIDENCE_DIR=/tmp/evidence_seed VERIF_REPO=$d /verif/bin/hv check $prop "$@" > /tmp/seedrun/$name.log 2>&1
rc=$?
echo "$name $prop exit=$rc"
grep -E "^VIOLATION|^  harness=|^  data race|^INCONCLUSIVE|^KNOWN" /tmp/seedrun/$name.log | cut -c1-220 | head -12
git -C /repo worktree remove --force $d >/dev/null 2>&1; rm -rf $d
