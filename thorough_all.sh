#!/bin/bash
# development helper for `vp run`: build the engine inside the snapshot this script lives in and run every thorough check
# against that snapshot's harnesses (VERIF_DIR), logging verdicts; evidence goes to /tmp/evidence_thorough
here="$(cd "$(dirname "$0")" && pwd)"
cd "$here/engine" && PATH=/opt/veriftools/go1.26.8/bin:$PATH GOTOOLCHAIN=local GOFLAGS=-mod=mod GOPROXY=off GOSUMDB=off go build -o "$here/bin/hv.thorough" ./cmd/hv || exit 2
cd "$here"
for p in ${PROPS:-C01 C02 C03 C04 C05 C07 C08 C09 C10 C11 C12 C13 C14 C15 C16 C17 C18 C19 C20}; do
  start=$(date +%s)
  VERIF_DIR="$here" VERIF_EVIDENCE_DIR=/tmp/evidence_thorough "$here/bin/hv.thorough" check $p --tier thorough > /tmp/thorough_$p.log 2>&1
  rc=$?
  echo "$p exit=$rc wall=$(( $(date +%s) - start ))s $(grep -c VIOLATION /tmp/thorough_$p.log) violations $(grep -c INCONCLUSIVE /tmp/thorough_$p.log) inconclusive"
done
