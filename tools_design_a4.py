#!/usr/bin/env python3
"""Refreshes the 'Harnesses (N): ...' lists in DESIGN.md section A.4 from the harness sources."""
import re, glob
names={}
for f in glob.glob('/verif/harness/**/zz_verif_*.go', recursive=True):
    for m in re.finditer(r'^func VerifH_(C\d\d)_(\w+)\(\)', open(f).read(), re.M):
        names.setdefault(m.group(1),[]).append(m.group(2))
s=open('/verif/DESIGN.md').read()
def fix(m):
    prop=m.group(1); l=sorted(names.get(prop,[]))
    # collapse numbered families
    fam={}; out=[]
    for n in l:
        k=re.sub(r'\d+','#',n)
        fam.setdefault(k,[]).append(n)
    for k,v in fam.items():
        if len(v)>4: out.append('%s (%d harnesses %s … %s)'%(k.replace('#','N'),len(v),v[0],v[-1]))
        else: out+=v
    return '%sHarnesses (%d): %s. *Bounds:*'%(m.group(2),len(l),', '.join('`%s`'%x for x in out))
s2=re.sub(r'(?s)(\*\*(C\d\d)\*\* — [^\n]*?)Harnesses \(\d+\): .*?\. \*Bounds:\*', lambda m: fix(type('M',(),{'group':lambda self,i:[None,m.group(2),m.group(1)][i]})()), s)
open('/verif/DESIGN.md','w').write(s2)
print('A.4 harness lists refreshed')
