#!/usr/bin/env python3
"""Regenerates DESIGN.md sections A.2 (repairs), A.3 (open findings) and A.5 (seeded changes) from
known_findings.json and seeded/*/meta.json. Sections A.4/A.6 are written by hand."""
import json,glob,re
p='/verif/DESIGN.md'; s=open(p).read()
k=json.load(open('/verif/known_findings.json'))
fx=[f for f in k['findings'] if f['status']=='fixed']
op=[f for f in k['findings'] if f['status']=='open']
fixes="| commit | property | what failed (found by) |\n|---|---|---|\n"
for f in fx:
    w=f['what'].split(' ',3)[3] if f['what'].startswith('fixed:') else f['what']
    fixes+=f"| `{f['commit']}` | {f['property']} | {w} (`{f['harness']}` / `{f['label']}`) |\n"
ncommits=len({f["commit"] for f in fx})
fixes+=f"\n{len(fx)} failing inputs recorded, repaired by {ncommits} `fix:` commits (a commit that repairs one defect can close several recorded inputs). Each was first reported by the named harness, replayed on the real build, repaired, and the harness now passes; the entries stay in `known_findings.json` as `fixed` (they suppress nothing).\n\n"
why={"C08":"repairing the writer means changing the version byte that existing tests assert; verifying Fletcher-32 in the reader with the writer's algorithm would reject reference-library files (their Fletcher-32 differs)",
     "C13":"needs the chunk index to be rebuilt (or chunks released) on shrink — a redesign of Resize",
     "C15":"the block's capacity accounting (prefix and checksum inside the block) is asserted byte-for-byte by existing tests; a repair changes every offset",
     "C20":"the encoders return 0x7F for NaN and the decoders read 0x7F as +Inf; the existing tests assert exactly that code (TestFP8E4M3_SpecialConversions / E5M2), so the repair would break the unedited suite",
     "C14":"records hold only (hash, heap id); telling colliding names apart needs a lookup of the stored name in the heap on every hash match — an interface change between index and heap",
     "C15":"the writer grows heaps beyond one direct block in memory only (single-level indirect root, marked MVP in the code): WriteToFile serialises the header and one direct block, and both readers — structures.FractalHeap and the raw reader in core used for dense attributes — resolve a direct root only. Making such heaps persistent means writing the indirect block and every child block and implementing indirect traversal in both readers: a feature, not a small repair; refusing the growing insert instead would remove behaviour",
     "C02":"scalars are written with a simple dataspace [1] by design (the code comments say so and the dataspace tests expect it); telling the two apart needs the scalar dataspace class in the writer and a different rule in the reader, which changes what reference-library files with shape (1,) attributes return. (heap-beyond-one-block: see C15)",
     "C03":"listing a dense group needs a reader for dense link storage (link info message, fractal heap of link messages, name index) — a feature, not a small repair; the writer side is exercised by the library's own tests only through its internal structures",
     "C07":"the result of Read is one value per element of the extent, so its size is the extent's by construction; a sparse or compressed chunked dataset of the reference library legitimately has an extent far larger than its file, so no bound tied to the file size can be enforced without rejecting valid files — the limit is a policy decision (the library's is 1 TiB)",
     "C17":"reporting the undecodable attribute as an error makes the existing test TestReference_AllFiles fail: it requires Attributes() to succeed on a deliberately malformed reference file (memleak_H5O_dtype_decode_helper_H5Odtype.h5), so the lenient behaviour is asserted by the suite",
     "C18":"the lazy state is shared between the loop goroutine and foreground calls without any lock; a repair is a locking design for WritableBTreeV2"}
opn="| id | property | harness / label | what fails, and why it is recorded rather than repaired |\n|---|---|---|---|\n"
for f in op:
    opn+=f"| {f['id']} | {f['property']} | `{f['harness']}` / `{f['label']}` | {f['what']}. *{why.get(f['property'],'')}* |\n"
opn+="\n"
sd="| seed | property | needs, in order to manifest | caught by |\n|---|---|---|---|\n"
metas=[json.load(open(f)) for f in sorted(glob.glob('/verif/seeded/*/meta.json'))]
for m in metas:
    sd+=f"| {m['id']} | {m['breaks_property']} | {m['needs_to_manifest']} | " + "; ".join("`"+x+"`" for x in m['detected_by'][:2]) + " |\n"
caught=sum(1 for m in metas if m['detected'])
own=sum(1 for m in metas if m['id'].startswith('self_'))
sd+=f"\n{len(metas)-own} changes written by independent sub-agents (each saw only the property text and its own scratch worktree) plus {own} of our own; all compile, pass the unedited suite, and have a demonstration that fails with the change only (confirmed with `seed_confirm.sh` against the current HEAD of /repo). {caught} of {len(metas)} are caught by the checks as committed (first passes: round 1 21 of 36, round 2 13 of 22, round 3 8 of 16, round 4 4 of 12 — the misses are what the later harnesses were written for). "
sd+=open('/verif/seeded/NOTES.md').read() if glob.glob('/verif/seeded/NOTES.md') else ""
sd+="\n\n"
def repl(s,head,nexthead,body):
    i=s.index(head); j=s.index(nexthead,i)
    line_end=s.index('\n',i)+1
    return s[:line_end]+"\n"+body+s[j:]
s=repl(s,"### A.2 ","### A.3 ",fixes)
s=repl(s,"### A.3 ","### A.4 ",opn)
s=repl(s,"### A.5 ","### A.6 ",sd)
open(p,'w').write(s)
print("DESIGN tables regenerated:",len(fx),"fixes",len(op),"open",len(metas),"seeds")
