#!/usr/bin/env python3
"""Regenerates /verif/MANIFEST.json from the table below (kept by hand)."""
import json, sys

ENV = "cd /verif/engine && PATH=/opt/veriftools/go1.26.8/bin:$PATH GOTOOLCHAIN=local GOFLAGS=-mod=mod GOPROXY=off GOSUMDB=off go build -o /verif/bin/hv ./cmd/hv"

TECH = "bounded symbolic execution of the go/ssa form of /repo (own executor) + SMT (z3 QF_BV/FP) verdict per obligation; counterexamples replayed on the real build"

CHECKS = {
}

NA = {
}

def main():
    checks = []
    for pid in sorted(CHECKS):
        c = CHECKS[pid]
        checks.append({
            "property_id": pid,
            "quick_cmd": f"/verif/bin/hv check {pid} --tier quick",
            "thorough_cmd": f"/verif/bin/hv check {pid} --tier thorough",
            "evidence_file": f"/verif/evidence/{pid}.json",
            "replay_cmd_template": "/verif/bin/hv replay {path}",
            "engine": "gosym",
            "level_claimed": {"category": "model_checking", "text": c["text"], "design_ref": c.get("ref", "DESIGN.md §A.4 " + pid + " (as built); §3 " + pid + " (original plan)")},
            "level_note": c["note"],
            "technique": c.get("technique", TECH),
        })
    m = {
        "version": 1,
        "setup_cmd": ENV,
        "hooks": {
            "guard": "verif",
            "enable": "harness files carry //go:build verif and are injected with go/packages overlays (symbolic run) and `go test -tags verif -overlay` (native replay); nothing is written into /repo",
            "baseline_off_cmd": "cd /repo && PATH=/opt/veriftools/go1.26.8/bin:$PATH GOTOOLCHAIN=local GOFLAGS=-mod=mod GOPROXY=off go test -json -vet=off -count=1 -timeout 25m ./...",
            "source_commits": [],
            "add_only": True,
        },
        "engines": [{"name": "gosym", "path": "/verif/engine", "serves_properties": sorted(CHECKS), "kind_free_text": "symbolic executor for go/ssa (x/tools v0.50.0) emitting SMT-LIB2 to a live z3 process; path-wise exploration with solver-decided forks; native replay through go test overlays"}],
        "checks": checks,
        "not_applicable": [{"property_id": k, "reason": v} for k, v in sorted(NA.items())],
        "notes": "See DESIGN.md. Exit codes of every check: 0 = all obligations discharged within the stated bounds (KNOWN-FINDING lines for listed open findings); 1 = VIOLATION (replayed on the real build); 3 = inconclusive (solver unknown, unwinding bound exceeded, unsupported construct, non-reproducing model).",
    }
    json.dump(m, open("/verif/MANIFEST.json", "w"), indent=1)
    print("wrote MANIFEST.json with", len(checks), "checks,", len(NA), "not applicable")

if __name__ == "__main__":
    exec(open("/verif/manifest_table.py").read())
    main()
