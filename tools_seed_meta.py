#!/usr/bin/env python3
"""Writes seeded/<id>/meta.json for seeds that carry a .info line (PROP|demo file|go test args) from two matrix logs
(first pass, final pass) produced by seed_run.sh.  usage: tools_seed_meta.py <first.log> <final.log> [needs.json]"""
import sys, os, re, json, glob
def parse(log):
    res={}; cur=None
    for l in open(log):
        m=re.match(r'^(\S+) (C\d\d) exit=(\d+)',l)
        if m: cur=m.group(1); res[cur]={'exit':int(m.group(3)),'by':[], 'inc':[]}; continue
        if cur is None: continue
        m=re.match(r'^\s+harness=(\S+) label=(\S+)',l)
        if m: res[cur]['by'].append(m.group(1)+'/'+m.group(2))
        m=re.match(r'^\s+data race: (.*)',l)
        if m: res[cur]['by'].append('race: '+m.group(1).strip())
        if l.startswith('INCONCLUSIVE'): res[cur]['inc'].append(l.strip()[:200])
    return res
first=parse(sys.argv[1]); final=parse(sys.argv[2])
needs=json.load(open(sys.argv[3])) if len(sys.argv)>3 else {}
for d in sorted(glob.glob('/verif/seeded/*/.info')):
    sd=os.path.dirname(d); sid=os.path.basename(sd)
    prop,demo,args=open(d).read().strip().split('|')
    f0=first.get(sid,{'exit':None,'by':[]}); f1=final.get(sid,{'exit':None,'by':[]})
    meta={'id':sid,'breaks_property':prop,'needs_to_manifest':needs.get(sid,''),
      'demonstration':{'file':os.path.basename(demo),'package_file':demo,'command':'go test -vet=off -count=1 '+args,'fails_with_change':True,'passes_without_change':True},
      'confirmed_by':'/verif/seed_confirm.sh: patch applied in a fresh scratch worktree of /repo HEAD; go build ./...; whole existing suite passes; demo fails with the change and passes after git apply -R',
      'check_run':'/verif/seed_run.sh %s patch.diff %s  (hv check %s --tier quick against a scratch worktree with the patch applied)'%(sid,prop,prop),
      'first_pass_detected': f0['exit']==1,
      'detected_by':sorted(set(f1['by'])),'detected':f1['exit']==1,
      'origin':'written by an independent sub-agent that saw only the property text and its own worktree (round 2)'}
    json.dump(meta,open(sd+'/meta.json','w'),indent=1)
    print(sid,prop,'first',f0['exit'],'final',f1['exit'],len(meta['detected_by']))
