#!/usr/bin/env python3
"""Updates detected / detected_by in every seeded/<id>/meta.json from a final matrix log (seed_run.sh output), and
creates meta.json for seeds that only carry a .info line (first-pass log and a needs file required for those).
usage: tools_seed_meta_update.py <final.log> [<first.log> <needs.json>]"""
import sys, os, re, json, glob
def parse(log):
    res={}; cur=None
    for l in open(log):
        m=re.match(r'^(\S+) (C\d\d) exit=(\d+)',l)
        if m: cur=m.group(1); res[cur]={'exit':int(m.group(3)),'by':[]}; continue
        if cur is None: continue
        m=re.match(r'^\s+harness=(\S+) label=(\S+)',l)
        if m: res[cur]['by'].append(m.group(1)+'/'+m.group(2))
        m=re.match(r'^\s+data race: (.*)',l)
        if m: res[cur]['by'].append('race: '+m.group(1).strip())
    return res
final=parse(sys.argv[1])
first=parse(sys.argv[2]) if len(sys.argv)>2 else {}
needs=json.load(open(sys.argv[3])) if len(sys.argv)>3 else {}
for sd in sorted(glob.glob('/verif/seeded/*/')):
    sid=os.path.basename(sd.rstrip('/'))
    mp=sd+'meta.json'
    f1=final.get(sid)
    if os.path.exists(mp):
        m=json.load(open(mp))
    elif os.path.exists(sd+'.info'):
        prop,demo,args=open(sd+'.info').read().strip().split('|')
        f0=first.get(sid,{'exit':None})
        m={'id':sid,'breaks_property':prop,'needs_to_manifest':needs.get(sid,''),
           'demonstration':{'file':os.path.basename(demo),'package_file':demo,'command':'go test -vet=off -count=1 '+args,'fails_with_change':True,'passes_without_change':True},
           'confirmed_by':'/verif/seed_confirm.sh: patch applied in a fresh scratch worktree of /repo HEAD; go build ./...; whole existing suite passes; demo fails with the change and passes after git apply -R',
           'check_run':'/verif/seed_run.sh %s patch.diff %s  (hv check %s --tier quick against a scratch worktree with the patch applied)'%(sid,prop,prop),
           'first_pass_detected': f0['exit']==1,
           'origin':'written by an independent sub-agent that saw only the property text and its own worktree (round %s)' % ('4' if sid.startswith('r4') else '3')}
    else:
        continue
    if f1 is not None:
        m['detected']= f1['exit']==1
        m['detected_by']=sorted(set(f1['by']))
    json.dump(m,open(mp,'w'),indent=1)
    print(sid, m.get('breaks_property'), 'detected' if m.get('detected') else 'NOT DETECTED', len(m.get('detected_by',[])))
